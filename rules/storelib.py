"""Shared rules over the sharded track store (used by C05, C09, C10)."""
from linear import destroyed
from lib import (Cond, ExprBuilder, closure_args_of_call, count_on_paths, necessary_edges, orient, path_conditions,
                 reachable_bodies, upvar_expr)
from mir import norm

STORE = 'track::store::TrackStore'
WORKER = STORE + '::handle_store_ops'
SEND = 'crossbeam::crossbeam_channel::Sender::send'
RECV = 'crossbeam::crossbeam_channel::Receiver::recv'


def worker_arms(ctx, rule):
    """{variant: start block} of the worker's dispatch on the received command"""
    body = ctx.anchor(rule, WORKER)
    if body is None:
        return None, {}
    cands = {}
    for x in sorted(body.live_blocks()):
        t = body.blocks[x]['t']
        if t['k'] != 'switch':
            continue
        for tg in set(tg for _, tg in body.switch_edges(x)):
            if tg in body.diverging():
                continue
            c = Cond(body, x, tg)
            if c.kind == 'discr' and 'track::store::Commands' in getattr(c, 'enum_ty', ''):
                if len(c.variants) == 1:
                    cands.setdefault(list(c.variants)[0], []).append((x, tg))
    # the dispatch is the FIRST test of the command's discriminant (later ones - drop elaboration of a partially
    # moved payload at the end of the iteration - are dominated by it)
    arms = {}
    for v, xs in cands.items():
        best = [(x, tg) for x, tg in xs if all(body.dominates(x, y) for y, _ in xs)]
        arms[v] = (best or xs)[0][1]
    return body, arms


def sent_variant(body, call):
    """variant of Results / Commands constructed as the message of a send call"""
    if len(call.args) < 2:
        return None
    e = ExprBuilder(body).operand(call.args[1])
    for x in e.walk():
        if x.kind == 'agg' and (x.name.startswith('track::store::Results::') or x.name.startswith(
                'track::store::Commands::')):
            return x.name.rsplit('::', 1)[-1]
    return None


def recv_block(body):
    r = body.find_calls(RECV)
    return [c.bb for c in r]


EXPECTED_RESPONSES = {
    # arm -> {Results variant: (min, max)}
    'Drop': {'Dropped': (1, 1)},
    'FindBaked': {'BakedStatus': (1, 1)},
    'Lookup': {'BakedStatus': (1, 1)},
    'Distances': {'DistanceOk': (1, 1), 'DistanceErr': (1, 1)},
    'Merge': {'MergeResult': (0, 1)},
}


def rule_exactly_once_responses(ctx, R):
    """P4: per command arm, the number of responses sent on every normal path of one loop iteration"""
    body, arms = worker_arms(ctx, R)
    if body is None:
        return 0
    n = 0
    ends = set(recv_block(body)) | set(body.returns())
    sends = body.find_calls(SEND)
    by_variant = {}
    for c in sends:
        by_variant.setdefault(sent_variant(body, c), []).append(c)
    for arm, exp in EXPECTED_RESPONSES.items():
        if arm not in arms:
            ctx.fail(R, body, 'arm:' + arm, 'ANCHOR-MISSING: the worker no longer dispatches on Commands::%s' % arm)
            continue
        start = arms[arm]
        for variant, (lo, hi) in exp.items():
            marks = [c.bb for c in by_variant.get(variant, [])]
            r = count_on_paths(body, start, ends, marks)
            n += 1
            inst = 'arm:%s sends Results::%s' % (arm, variant)
            if r is None:
                ctx.fail(R, body, inst, 'arm has no normal path back to the command loop')
                continue
            ctx.check(r == (lo, hi), R, body, inst,
                      'between %d and %d per command on all normal paths' % r,
                      'arm %s sends Results::%s between %d and %s times per command (expected %d..%d): a missing or '
                      'duplicated response makes the caller block or mis-attribute results' % (
                          arm, variant, r[0], r[1] if r[1] < 64 else 'unboundedly many', lo, hi),
                      by_variant.get(variant, [None])[0].ln if by_variant.get(variant) else '')
        # other variants must not be sent from this arm
        for variant, cs in by_variant.items():
            if variant in exp or variant is None:
                continue
            r = count_on_paths(body, start, ends, [c.bb for c in cs])
            if r and r[1] > 0:
                ctx.fail(R, body, 'arm:%s sends Results::%s' % (arm, variant),
                         'arm %s can send a Results::%s message it is not supposed to send' % (arm, variant), cs[0].ln)
    # Merge: the only condition on the response is `channel is Some`
    if 'Merge' in arms:
        for c in by_variant.get('MergeResult', []):
            conds = [Cond(body, x, t) for x, t in necessary_edges(body, c.bb, arms['Merge'])]
            extra = [k for k in conds if not (k.kind == 'discr' and k.variants == {'Some'})]
            some = [k for k in conds if k.kind == 'discr' and k.variants == {'Some'}]
            n += 1
            ctx.check(len(some) == 1 and not extra, R, body, 'arm:Merge response condition',
                      'MergeResult is sent exactly when a response channel was supplied',
                      'MergeResult is sent under additional conditions %s: some merges are never answered' % extra,
                      c.ln)
    return n


def loops_iterating(body, bb):
    """for the natural loops containing bb: list of E of the iterated collection (arg of into_iter/iter feeding next)"""
    out = []
    eb = ExprBuilder(body)
    for h, blks in body.loops().items():
        if bb not in blks:
            continue
        nx = [c for c in body.find_calls('std::iter::Iterator::next') if c.bb in blks]
        # the `next` of this loop is the one in the header region: choose those whose iterator is defined outside
        for c in nx:
            e = eb.operand(c.args[0])
            out.append((h, e))
    return out


def F_(ctx):
    return ctx.F


def rule_fanout(ctx, R):
    """foreign_track_distances: one command per (candidate x executor); expected count = executors.len()*tracks.len();
       find_usable / lookup / Drop: one command and one receive per executor"""
    n = 0
    b = ctx.anchor(R, STORE + '::foreign_track_distances')
    if b is not None:
        eb = ExprBuilder(b)
        from lib import effective_sites, iteration_context
        sends = [(site, c, o) for site, c, o in effective_sites(F_(ctx), b, SEND) if sent_variant(o, c) == 'Distances']
        ctx.check(len(sends) == 1, R, b, 'distance-command-send-sites', '1 send site',
                  '%d send sites for Commands::Distances' % len(sends))
        for site, c, o in sends:
            its = iteration_context(F_(ctx), b, o, c.bb)
            texts = [repr(e) for e in its]
            over_exec = any(e.has_place(root=('param', 1), field='executors') for e in its)
            over_tracks = any(e.has_place(root=('param', 2)) for e in its)
            n += 1
            ctx.check(over_exec and over_tracks, R, b, 'send-per-candidate-and-executor',
                      'send nested in loops over %s' % texts,
                      'the Distances command is not sent once per (candidate track x executor): loops around the '
                      'send iterate %s' % texts, c.ln)
        # count
        for ctor in ('track::store::track_distance::TrackDistanceOk',
                     'track::store::track_distance::TrackDistanceErr'):
            # the constructor call is recognised by the type it returns (its name is private to the crate)
            cs = [c for c in b.find_calls() if b.locals[c.dest['l']].startswith(ctor + '<') and c.callee.startswith(
                'track::store::track_distance::') and len(c.args) == 2]
            for c in cs:
                e = eb.operand(c.args[0])
                muls = [x for x in e.walk() if x.kind == 'bin' and x.name == 'Mul']
                ok = False
                for m in muls:
                    a, bb_ = m.args
                    s = repr(a) + ' ' + repr(bb_)
                    has_exec = any(x.has_place(root=('param', 1), field='executors') and x.has_call('len') for x in
                                   (a, bb_))
                    has_tr = any(x.has_place(root=('param', 2)) and x.has_call('len') for x in (a, bb_))
                    ok = ok or (has_exec and has_tr)
                if not ok and any(x.kind == 'bin' and x.name == 'Mul' for x in e.walk()):
                    # the candidates are counted while they are sent (an `impl IntoIterator` has no len()): one factor
                    # is executors.len(), the other a counter that starts at 0 and is incremented by 1 exactly once
                    # per iteration of the loop over the candidates (one level above the per-executor send)
                    from lib import count_per_iteration
                    for m in [x for x in e.walk() if x.kind == 'bin' and x.name == 'Mul']:
                        ex = [a for a in m.args if a.has_place(root=('param', 1), field='executors') and a.has_call('len')]
                        cn = [a for a in m.args if a not in ex]
                        if len(ex) != 1 or len(cn) != 1:
                            continue
                        alts = cn[0].args if cn[0].kind == 'phi' else [cn[0]]
                        zero = any(a.kind == 'const' and a.const_value() in ('0', 0) for a in alts)
                        incs = []
                        for i_ in sorted(b.live_blocks()):
                            for s_ in b.blocks[i_]['st']:
                                rv_ = s_.get('rv') or {}
                                if s_['k'] == 'assign' and rv_.get('k') == 'bin' and rv_.get('op') in ('Add', 'AddWithOverflow') and \
                                        rv_['b'].get('k') == 'const' and str(rv_['b']['c'].get('v')) == '1' and \
                                        'usize' in b.locals[s_['lhs']['l']] and b.in_loop(i_):
                                    incs.append(i_)
                        send_depth = [len(b.in_loop(c_.bb)) for _s, c_, o_ in sends if o_ is b]
                        for i_ in incs:
                            its = iteration_context(F_(ctx), b, b, i_)
                            over_tracks = any(x_.has_place(root=('param', 2)) for x_ in its)
                            hs = b.in_loop(i_)
                            inner = min(hs, key=lambda h_: len(b.loops()[h_])) if hs else None
                            once = inner is not None and count_per_iteration(b, inner, [i_]) == (1, 1)
                            if zero and over_tracks and once and send_depth and len(hs) == send_depth[0] - 1:
                                ok = True
                if not ok and e.kind == 'const' and e.const_value() in ('0', 0):
                    # explicit fast path for an empty batch: 0 == executors.len() * 0 exactly when `tracks` is empty
                    from lib import path_conditions as _pc
                    for cnd in _pc(b, c.bb):
                        if cnd.kind != 'bool' or cnd.truth is None:
                            continue
                        x = cnd.expr
                        if cnd.truth and x.kind == 'call' and x.name.rsplit('::', 1)[-1] == 'is_empty' and \
                                x.has_place(root=('param', 2)):
                            ok = True
                        cm = cnd.cmp()
                        if cm and cm[0] == 'Eq':
                            for a_, b__ in ((cm[1], cm[2]), (cm[2], cm[1])):
                                if a_.has_call('len') and a_.has_place(root=('param', 2)) and b__.kind == 'const' and \
                                        b__.const_value() in ('0', 0):
                                    ok = True
                n += 1
                ctx.check(ok, R, b, 'expected-count:' + ctor.rsplit('::', 1)[-1],
                          'count = %r' % e, 'the number of expected responses %r is not executors.len() * '
                          'tracks.len()' % e, c.ln)
            for c in cs:
                # the response reads from a channel created by THIS query: a channel kept in the store and shared by
                # all queries delivers the chunks of an abandoned / partially read / concurrently pending query to
                # the next one (chunks are counted, not attributed)
                r = eb.operand(c.args[1])
                created = any(x.kind == 'call' and x.name.rsplit('::', 1)[-1] in ('unbounded', 'bounded') for x in r.walk())
                from_self = any(p.root == ('param', 1) and p.fields for p in r.places())
                n += 1
                ctx.check(created and not from_self, R, b, 'response-channel-created-per-query:' + ctor.rsplit('::', 1)[-1],
                          repr(r)[:80],
                          'the receiver handed to %s is %r: it is not the receiving end of a channel created by this call '
                          '(a channel shared between queries mixes the answers of different queries)' % (
                              ctor.rsplit('::', 1)[-1], r), c.ln)
            if not cs:
                ctx.fail(R, b, 'expected-count:' + ctor, 'ANCHOR-MISSING: %s not constructed' % ctor)
    for name, cmd in (('find_usable', 'FindBaked'), ('lookup', 'Lookup')):
        b = ctx.anchor(R, STORE + '::' + name)
        if b is None:
            continue
        from lib import effective_sites, iteration_context
        for kind, calls in (('send', [(s_, c, o) for s_, c, o in effective_sites(ctx.F, b, SEND)
                                      if sent_variant(o, c) == cmd]),
                            ('recv', effective_sites(ctx.F, b, RECV))):
            n += 1
            ok = len(calls) == 1
            detail = ''
            if ok:
                its = iteration_context(ctx.F, b, calls[0][2], calls[0][1].bb)
                ok = len(its) == 1 and its[0].has_place(root=('param', 1), field='executors')
                detail = 'iterating %s' % [repr(e) for e in its]
            ctx.check(ok, R, b, '%s:%s-per-executor' % (name, kind), detail,
                      '%s does not %s exactly once per executor (%s)' % (name, kind, detail or '%d sites' % len(
                          calls)), calls[0][1].ln if calls else '')
    return n


def rule_shard_index(ctx, R):
    """who-indexes: `stores`/`executors` are indexed only by id % num_shards (or iterated whole)"""
    F = ctx.F
    n = 0
    gs = ctx.anchor(R, STORE + '::get_store')
    ge = ctx.anchor(R, STORE + '::get_executor')

    def is_mod_shards(e):
        for x in e.walk():
            if x.kind == 'bin' and x.name == 'Rem':
                if x.args[1].has_place(root=('param', 1), field='num_shards') and x.args[0].has_place(
                        root=('param', 2)):
                    return True
        return False

    if gs is not None:
        eb = ExprBuilder(gs)
        gets = gs.find_calls('core::slice::get', 'core::slice::index::Index::index', 'std::ops::Index::index')
        ok = False
        for c in gets:
            recv = eb.operand(c.args[0])
            from lib import expand_calls
            idx = expand_calls(F, eb.operand(c.args[1]), only=lambda p_: p_.startswith('track::store::'))
            if recv.has_place(root=('param', 1), field='stores') and is_mod_shards(idx):
                ok = True
        n += 1
        ctx.check(ok, R, gs, 'get_store:index', 'stores[id % num_shards]',
                  'get_store does not select the shard as stores[id % num_shards]')
    if ge is not None:
        e = ExprBuilder(ge).place(0, ())
        n += 1
        ctx.check(is_mod_shards(e), R, ge, 'get_executor:index', 'id %% num_shards = %r' % e,
                  'get_executor does not compute id %% num_shards (%r): commands reach a worker that does not own '
                  'the shard' % e)
    # all other users of the two vectors
    WHOLE = {'iter', 'iter_mut', 'into_iter', 'len', 'clone', 'as_ref', 'deref', 'deref_mut', 'is_empty', 'take'}
    for b in F.fn_bodies():
        if b.npath == STORE + '::get_store' or not b.npath.startswith('track::store::'):
            continue
        eb = None
        for c in b.find_calls():
            if not c.args:
                continue
            eb = eb or ExprBuilder(b)
            recv = eb.operand(c.args[0])
            base = recv
            # strip views
            while base.kind == 'call' and base.name.rsplit('::', 1)[-1] in ('deref', 'deref_mut', 'as_ref', 'as_mut',
                                                                             'as_slice', 'as_mut_slice'):
                base = base.args[0]
            if base.kind != 'place' or base.root != ('param', 1) or not base.fields:
                continue
            if base.fields[-1] not in ('stores', 'executors'):
                continue
            if 'TrackStore' not in b.locals[1]:
                continue
            which = base.fields[-1]
            nm = c.name
            if nm in WHOLE:
                continue
            if nm in ('first', 'last', 'first_mut', 'last_mut', 'split_first', 'split_last', 'pop', 'split_at',
                      'split_first_mut', 'split_last_mut', 'choose', 'nth', 'truncate', 'retain'):
                n += 1
                ctx.fail(R, b, '%s-selected-by:%s' % (which, nm), '`%s` is accessed through `%s`, which selects a '
                         'shard independently of the track id (only id %% num_shards or whole iteration is allowed)' %
                         (which, nm), c.ln)
                continue
            if nm in ('get', 'get_mut', 'index', 'index_mut', 'get_unchecked', 'get_unchecked_mut', 'swap_remove',
                      'remove'):
                idx = eb.operand(c.args[1])
                ok = idx.has_call('get_executor') or is_mod_shards(idx) or idx.has_call('get_store')
                n += 1
                ctx.check(ok, R, b, '%s-indexed-by:%s' % (which, nm), 'index = %r' % idx,
                          '`%s` is indexed by %r, not by id %% num_shards' % (which, idx), c.ln)
            else:
                ctx.note(R, 'unclassified use of `%s` through `%s` in %s at %s (not armed)' % (which, nm, b.npath, c.ln))
    # worker i owns store i
    w = ctx.anchor(R, WORKER)
    if w is not None:
        eb = ExprBuilder(w)
        gets = w.find_calls('core::slice::get')
        ok = any(eb.operand(c.args[0]).has_place(root=('param', 1)) and eb.operand(c.args[1]).strip().kind == 'place'
                 and eb.operand(c.args[1]).strip().root == ('param', 2) for c in gets)
        n += 1
        ctx.check(ok, R, w, 'worker:own-shard', 'worker reads stores[store_id]',
                  'the worker does not operate on stores[store_id]')
        # and it uses no other shard
        others = [c for c in gets if not eb.operand(c.args[1]).strip().root == ('param', 2)]
        ctx.check(not others, R, w, 'worker:only-own-shard', '', 'the worker indexes another shard: %s' % others)
    newb = ctx.anchor(R, STORE + '::new')
    if newb is not None:
        ok = False
        detail = ''
        from lib import all_closures as _ac
        _ac(F, newb)          # registers where closures (also those of inlined helpers) are constructed
        for cb in reachable_bodies(F, newb, depth=1):
            for b in F.get(cb):
                for c in b.find_calls(WORKER):
                    e = ExprBuilder(b).operand(c.args[1])
                    detail = repr(e)
                    # resolve upvar to the parent closure's parameter
                    if e.kind == 'place' and e.root[0] == 'upvar':
                        pb, pe = upvar_expr(F, b, e.root[1])
                        if pe is not None:
                            detail = '%r in %s' % (pe, pb.npath)
                            if pe.kind == 'place' and pe.root == ('param', 2) and pb.kind == 'Closure':
                                ok = True
        n += 1
        ctx.check(ok, R, newb, 'new:worker-i-gets-store-i', 'store index passed to worker = %s' % detail,
                  'TrackStore::new does not start worker i on store i (index expression: %s)' % detail)
    return n


def rule_merge_routing(ctx, R):
    """the Merge command for destination d is sent to executor(d) and carries d"""
    b = ctx.anchor(R, STORE + '::merge_external_noblock')
    if b is None:
        return 0
    eb = ExprBuilder(b)
    n = 0
    ge = b.find_calls(STORE + '::get_executor')
    ok = any(eb.operand(c.args[1]).strip().has_place(root=('param', 2)) for c in ge)
    n += 1
    ctx.check(ok, R, b, 'merge:executor-of-destination', 'get_executor(dest_id)',
              'the merge command is not routed to the executor that owns the destination id')
    sends = [c for c in b.find_calls(SEND) if sent_variant(b, c) == 'Merge']
    for c in sends:
        e = eb.operand(c.args[1])
        aggs = [x for x in e.walk() if x.kind == 'agg' and x.name.endswith('Commands::Merge')]
        from lib import payload_leaves
        lv = [l_.strip() for _p, l_ in payload_leaves(aggs[0])] if aggs else []
        # (the command carries the destination id and the source track, however the payload is packaged)
        ok = any(l_.kind == 'place' and l_.root == ('param', 2) and not l_.fields for l_ in lv) and \
            any(l_.kind == 'place' and l_.root == ('param', 3) for l_ in lv)
        n += 1
        ctx.check(ok, R, b, 'merge:command-carries-dest-and-src', 'Commands::Merge(dest_id, src, ..)',
                  'Commands::Merge is not built from (dest_id, src): %r' % (aggs[0] if aggs else e), c.ln)
        # receiver of the send = executors[get_executor(dest)]
        recv = eb.operand(c.args[0])
        ok = recv.has_call('get_executor') or any(
            x.kind == 'call' and x.name.endswith('get_mut') and x.args[1].has_call('get_executor') for x in
            recv.walk())
        n += 1
        ctx.check(ok, R, b, 'merge:sent-to-owner', 'sent through executors[get_executor(dest_id)]',
                  'the Merge command is sent through %r, not executors[get_executor(dest_id)]' % recv, c.ln)
    if not sends:
        ctx.fail(R, b, 'merge:send', 'ANCHOR-MISSING: no send of Commands::Merge')
    return n


def loop_exit_edges(body, header):
    blks = body.loops().get(header, set())
    out = []
    for x in blks:
        for s in body.succ()[x]:
            if s not in blks:
                out.append((x, s))
    return out


def rule_consumers(ctx, R):
    """the caller side of a distance query consumes exactly `count` chunks: blocking recv, no early exit"""
    F = ctx.F
    n = 0
    ga = ctx.anchor(R, 'track::store::track_distance::TrackDistanceResponse::get_all')
    if ga is not None:
        eb = ExprBuilder(ga)
        recvs = ga.find_calls(RECV)
        other = [c for c in ga.find_calls() if c.callee.startswith('crossbeam::crossbeam_channel::Receiver::') and
                 c.name in ('try_recv', 'recv_timeout', 'recv_deadline', 'try_iter')]
        if not recvs:
            # adaptor form: `(0..self.count()).fold(Vec::new(), |mut acc, _| { recv ..; acc })` / for_each / map
            from lib import all_closures, adaptor_of_closure, subst_upvars
            F = ctx.F
            handled = False
            for cb in all_closures(F, ga):
                crs = cb.find_calls(RECV)
                other += [c for c in cb.find_calls() if c.callee.startswith(
                    'crossbeam::crossbeam_channel::Receiver::') and c.name in ('try_recv', 'recv_timeout',
                                                                                'recv_deadline', 'try_iter')]
                if not crs:
                    continue
                ctx.read(cb)
                handled = True
                pb, ac = adaptor_of_closure(F, ga, cb)
                n += 1
                ctx.check(len(crs) == 1 and not other, R, ga, 'get_all:blocking-recv',
                          'one blocking recv per expected chunk', 'get_all does not use one blocking recv per expected '
                          'chunk (recv sites: %d, non-blocking/timeout receives: %s): late chunks are dropped' % (
                              len(crs), [c.name for c in other]))
                okb = False
                detail = ''
                if ac is not None and ac.name in ('fold', 'for_each', 'map', 'try_fold', 'flat_map'):
                    chain = subst_upvars(F, pb, ExprBuilder(pb).arg(ac, 0))
                    detail = repr(chain)[:120]
                    rng = [y for y in chain.walk() if y.kind == 'agg' and y.name.endswith('Range::Range') and len(y.args) == 2]
                    dropping = [y.name.rsplit('::', 1)[-1] for y in chain.walk() if y.kind == 'call' and
                                y.name.rsplit('::', 1)[-1] in ('take', 'skip', 'step_by', 'filter', 'take_while',
                                                               'skip_while', 'rev_take')]
                    if rng and not dropping:
                        lo, hi = rng[0].args
                        okb = lo.kind == 'const' and str(lo.const.get('v')) == '0' and hi.strip().kind == 'call' and \
                            hi.strip().args and hi.strip().args[0].strip().kind == 'place' and \
                            hi.strip().args[0].strip().root == ('param', 1)
                n += 1
                ctx.check(okb, R, ga, 'get_all:loop-over-count', 'recv once per element of 0..count(): ' + detail,
                          'the receive is not executed exactly once per expected chunk (it runs per element of %s): '
                          'chunks are lost or the caller blocks forever' % (detail or 'an unrecognised iteration'),
                          crs[0].ln)
                r = count_on_paths(cb, 0, cb.returns(), [crs[0].bb])
                n += 1
                ctx.check(r == (1, 1), R, ga, 'get_all:one-recv-per-iteration', str(r),
                          'one step over the expected chunks receives %s times' % (r,))
                n += 1
                ctx.ok(R, ga, 'get_all:single-loop-exit', 'an adaptor over 0..count() has no early exit')
            recvs_done = handled
        else:
            recvs_done = False
        n += 1 if not recvs_done else 0
        ctx.check(len(recvs) == 1 and not other or recvs_done, R, ga, 'get_all:blocking-recv', 'one blocking recv per expected chunk',
                  'get_all does not use one blocking recv per expected chunk (recv sites: %d, non-blocking/timeout '
                  'receives: %s): late chunks are dropped' % (len(recvs), [c.name for c in other]))
        from lib import counting_loops
        for c in recvs:
            cl = counting_loops(ga, c.bb)
            n += 1
            # the bound is the expected number of chunks: a usize obtained from self (the trait is private: the name
            # of that method is not part of the rule)
            okb = [x for x in cl if x[2].kind == 'call' and x[2].args and x[2].args[0].strip().kind == 'place' and
                   x[2].args[0].strip().root == ('param', 1)]
            ctx.check(len(okb) == 1, R, ga, 'get_all:loop-over-count', 'recv inside a loop that runs count() times',
                      'the receive is not executed exactly once per expected chunk (counting loops around it: %s): '
                      'chunks are lost or the caller blocks forever' % [(k, repr(e)) for _, k, e in cl], c.ln)
            n += 1
            ctx.check(bool(cl), R, ga, 'get_all:single-loop-exit', 'loop leaves only when the count is exhausted',
                      'the receive loop can be left early: remaining chunks are never consumed')
            if okb:
                from lib import count_per_iteration
                r = count_per_iteration(ga, okb[0][0], [c.bb])
                n += 1
                ctx.check(r == (1, 1), R, ga, 'get_all:one-recv-per-iteration', str(r),
                          'the loop over the expected chunks receives %s times per iteration' % (r,))
    counters = {}
    for it in ('TrackDistanceOkIterator', 'TrackDistanceErrIterator'):
        path = '<track::store::track_distance::%s as std::iter::Iterator>::next' % it
        b = ctx.anchor(R, path)
        if b is None:
            continue
        eb = ExprBuilder(b)
        recvs = b.find_calls(RECV)
        other = [c for c in b.find_calls() if c.callee.startswith('crossbeam::crossbeam_channel::Receiver::') and
                 c.name in ('try_recv', 'recv_timeout', 'recv_deadline', 'try_iter')]
        n += 1
        ctx.check(len(recvs) == 1 and not other, R, b, it + ':blocking-recv', '',
                  'the chunk iterator does not use a blocking recv (%s)' % [c.name for c in other])
        # the counter of outstanding chunks: the field of self that `next` updates from its own previous value (the
        # struct is private to the store: the name of the field is not part of the rule)
        decs = []
        for i in sorted(b.live_blocks()):
            for si, s in enumerate(b.blocks[i]['st']):
                if s['k'] == 'assign' and s['lhs']['p'] and isinstance(s['lhs']['p'][-1], dict) and \
                        s['lhs']['p'][-1].get('n'):
                    # a field reached from self (directly, or through `&mut self.inner` of an inlined helper)
                    base = eb.operand({'k': 'copy', 'pl': {'l': s['lhs']['l'], 'p': s['lhs']['p'][:-1]}},
                                      at=(i, si)).strip()
                    if not (base.kind == 'place' and base.root == ('param', 1)):
                        continue
                    fld = s['lhs']['p'][-1]['n']
                    e = eb._rvalue(s['rv'], (), 0, (i, si))
                    if e.has_field(fld):
                        decs.append((i, si, e, fld))
        counter = decs[0][3] if decs else None
        counters[it] = counter

        def minus_one(e):
            """self.counter - 1, plain or checked (`checked_sub(1)?`)"""
            x = e.strip()
            if x.kind == 'bin' and x.name == 'Sub':
                return x.args[0].has_field(counter) and x.args[1].kind == 'const' and x.args[1].const.get('v') == '1'
            for y in e.walk():
                if y.kind == 'call' and y.name.rsplit('::', 1)[-1] in ('checked_sub', 'saturating_sub', 'wrapping_sub') \
                        and len(y.args) == 2:
                    a1 = y.args[1].strip()
                    return y.args[0].has_field(counter) and a1.kind == 'const' and a1.const.get('v') == '1'
            return False
        # every possibly-None result requires counter == 0
        for d in b.defs().get(0, []):
            if d[1] not in b.live_blocks():
                continue
            conds = path_conditions(b, d[1])
            zero = False
            for k in conds:
                cm = k.cmp()
                if cm and counter and (cm[1].has_field(counter) or cm[2].has_field(counter)):
                    o = orient(cm, lambda e: e.has_field(counter))
                    if o and o[2].strip().kind == 'const':
                        v = o[2].strip().const.get('v')
                        if (o[0], v) in (('Eq', '0'), ('Lt', '1'), ('Le', '0')):
                            zero = True
                # `counter.checked_sub(1)?`: the None / Break side is exactly counter == 0
                if counter and k.kind == 'discr' and k.variants <= {'None', 'Break'} and k.variants and any(
                        y.kind == 'call' and y.name.rsplit('::', 1)[-1] == 'checked_sub' and minus_one(y)
                        for y in k.expr.walk()):
                    zero = True
            issome = any(k.kind == 'bool' and k.truth is True and k.expr.kind == 'call' and k.expr.name.endswith(
                'Option::is_some') for k in conds) or any(k.kind == 'discr' and k.variants == {'Some'} for k in conds)
            kind = 'other'
            if d[0] == 'assign':
                rv = d[3]['rv']
                if rv['k'] == 'agg' and rv.get('v') == 'None':
                    kind = 'none'
                elif rv['k'] == 'agg' and rv.get('v') == 'Some':
                    kind = 'some'
            n += 1
            if kind == 'some' or issome:
                ctx.ok(R, b, it + ':returns-element', 'element returned when present')
            else:
                ctx.check(zero, R, b, it + ':end-only-when-all-chunks-consumed',
                          'iteration ends only when the counter of outstanding chunks is 0',
                          'the iterator can end (or yield a possibly-empty result) while chunks are still '
                          'outstanding: an empty partial result from one shard drops the results of the others',
                          d[3]['ln'] if d[0] == 'assign' else d[2].ln)
        # one decrement per receive
        n += 1
        okd = len(decs) == 1 and minus_one(decs[0][2]) and recvs and b.dominates(decs[0][0], recvs[0].bb)
        ctx.check(okd, R, b, it + ':one-decrement-per-receive', 'counter -= 1 before each recv',
                  'the counter of outstanding chunks is not decremented exactly by one per received chunk (%s)' % [
                      repr(d[2]) for d in decs])
    # into_iter wiring: the counter starts as the expected number of chunks (a field of the response, unmodified)
    for it, src in (('TrackDistanceOk', 'TrackDistanceOkIterator'), ('TrackDistanceErr', 'TrackDistanceErrIterator')):
        for b in F.search(r'track_distance::%s as std::iter::IntoIterator>::into_iter$' % it):
            ctx.read(b)
            e = ExprBuilder(b).place(0, ())
            aggs = [x for x in e.walk() if x.kind == 'agg' and isinstance(x.extra, dict) and
                    counters.get(src) in (x.extra.get('fields') or [])]
            okw = False
            if aggs:
                idx = aggs[0].extra['fields'].index(counters[src])
                v = aggs[0].args[idx]
                vs = v.strip()
                okw = vs.kind == 'place' and vs.root == ('param', 1) and bool(vs.fields) and \
                    not any(y.kind == 'bin' for y in v.walk())
            n += 1
            ctx.check(okw, R, b, it + ':iterator_count=count', '', 'the iterator does not start with its counter = '
                      'the expected number of chunks (%r)' % (aggs[0].args if aggs else e))
    return n


SHORT_CIRCUIT = ('map_while', 'take_while', 'skip_while', 'take', 'skip', 'step_by', 'scan', 'find', 'find_map',
                 'nth', 'last', 'next', 'dedup', 'dedup_by', 'dedup_by_key', 'unique', 'unique_by', 'rev_take',
                 'filter', 'peekable', 'fuse', 'while_some', 'take_while_ref', 'take_while_inclusive', 'chunks',
                 'tuple_windows', 'step')


def rule_track_distances(ctx, R):
    """Track::distances: metric reached only for compatible attributes; one result per observation pair for which the
    metric yields a value (full cartesian product, no short-circuiting adaptor); query / result wiring"""
    F = ctx.F
    b = ctx.anchor(R, 'track::Track::distances')
    if b is None:
        return 0
    n = 0
    eb = ExprBuilder(b)
    from lib import all_closures
    from restore import exits
    # (a) compatibility guard
    comp = b.find_calls('track::TrackAttributes::compatible')
    n += 1
    if not comp:
        ctx.fail(R, b, 'compatible-guard', 'Track::distances no longer consults TrackAttributes::compatible')
    else:
        e = eb.arg(comp[0], 0).strip(), eb.arg(comp[0], 1).strip()
        okargs = e[0].kind == 'place' and e[1].kind == 'place' and e[0].fields == ('attributes',) and e[1].fields == (
            'attributes',) and {e[0].root, e[1].root} == {('param', 1), ('param', 2)}
        ctx.check(okargs, R, b, 'compatible(self.attributes, other.attributes)', '%r, %r' % e,
                  'compatible() is evaluated on %r and %r, not on the attributes of the two tracks' % e)
        # every outcome other than IncompatibleAttributes is decided on the compatible()==true side: an incompatible
        # track never contributes a result NOR an error report (the worker drops only IncompatibleAttributes)
        for bb, kind, desc in exits(b):
            conds = path_conditions(b, bb)
            g = [k for k in conds if k.kind == 'bool' and k.expr.kind == 'call' and k.expr.name.endswith(
                'TrackAttributes::compatible')]
            incompat = False
            for d in b.defs().get(0, []):
                if d[1] == bb and d[0] == 'assign':
                    ee = eb._rvalue(d[3]['rv'], (), 0, (d[1], d[2]))
                    incompat = 'IncompatibleAttributes' in repr(ee)
            if incompat:
                continue
            n += 1
            ctx.check(bool(g) and all(k.truth is True for k in g), R, b, 'outcome-only-when-compatible:bb%d' % bb,
                      desc, 'Track::distances can produce an outcome (%s) for a pair of tracks whose attributes were '
                      'not found compatible: incompatible tracks take part in the query (as results or as error '
                      'reports)' % desc)
    from lib import subst_upvars, expand_calls
    for cb in [b] + all_closures(F, b):
        for mc in cb.find_calls('track::ObservationMetric::metric'):
            ebc = ExprBuilder(cb)
            if cb is b:
                # loop form: the metric call itself sits on the compatible side
                conds = path_conditions(b, mc.bb)
                ok = any(k.kind == 'bool' and k.truth is True and k.expr.kind == 'call' and k.expr.name.endswith(
                    'TrackAttributes::compatible') for k in conds)
                n += 1
                ctx.check(ok, R, b, 'metric-only-when-compatible', 'metric call on the compatible()==true side',
                          'the metric is reachable although compatible() is false or was not consulted on that path',
                          mc.ln)
            else:
                # the closure is constructed only on the compatible side
                for bb, si, dp, ops, lhs in closure_aggregates_(b):
                    if dp != cb.npath:
                        continue
                    conds = path_conditions(b, bb)
                    ok = any(k.kind == 'bool' and k.truth is True and k.expr.kind == 'call' and k.expr.name.endswith(
                        'TrackAttributes::compatible') for k in conds)
                    n += 1
                    ctx.check(ok, R, b, 'metric-only-when-compatible', 'closure built on the compatible()==true side',
                              'the metric is reachable although compatible() is false or was not consulted on that '
                              'path', mc.ln)
            # MetricQuery wiring
            q = subst_upvars(F, cb, ebc.arg(mc, 1))
            mq = [x for x in q.walk() if x.kind == 'agg' and x.name.endswith('MetricQuery::MetricQuery')]
            n += 1
            okq = False
            detail = repr(q)[:200]
            if mq:
                m = dict(zip(mq[0].extra['fields'], mq[0].args))

                def up(e):
                    e = e.strip()
                    if e.kind == 'call' and e.name.endswith('get_attributes'):
                        e = e.args[0].strip()
                    if e.kind == 'place' and e.fields[-1:] == ('attributes',):
                        from lib import E as _E
                        e = _E('place', root=e.root, fields=e.fields[:-1])
                    return e
                ca, ta_ = up(m['candidate_attrs']), up(m['track_attrs'])
                co, to = m['candidate_observation'].strip(), m['track_observation'].strip()
                # the observations are the two components of one (left, right) pair: closure parameter `.0` / `.1`,
                # or - in loop form - elements of self.observations / other.observations
                pair_ok = (co.kind == 'place' and to.kind == 'place' and co.fields[-1:] == ('0',) and
                           to.fields[-1:] == ('1',)) or \
                    (m['candidate_observation'].has_place(root=('param', 1), field='observations') and
                     m['track_observation'].has_place(root=('param', 2), field='observations'))
                if not pair_ok:
                    # nested form (`left.iter().flat_map(|l| right.iter().map(move |r| ..))`, nested loops): each
                    # observation belongs to an iteration over the observations of its own track
                    from lib import elem_key
                    raw = dict(zip(mq[0].extra['fields'], [x for x in ebc.arg(mc, 1).walk() if x.kind == 'agg' and
                                                            x.name.endswith('MetricQuery::MetricQuery')][0].args)) \
                        if any(x.kind == 'agg' and x.name.endswith('MetricQuery::MetricQuery')
                               for x in ebc.arg(mc, 1).walk()) else None
                    if raw is not None:
                        kc = elem_key(F, b, cb, raw['candidate_observation'])
                        kt = elem_key(F, b, cb, raw['track_observation'])

                        def over(ch, k):
                            return ch is not None and any(p_.root == ('param', k) and 'observations' in p_.fields
                                                          for p_ in ch.places())
                        pair_ok = kc[0] is not None and kt[0] is not None and kc[0] != kt[0] and \
                            over(kc[1], 1) and not over(kc[1], 2) and over(kt[1], 2) and not over(kt[1], 1)
                okq = ca.kind == 'place' and ca.root == ('param', 1) and not ca.fields and ta_.kind == 'place' and \
                    ta_.root == ('param', 2) and not ta_.fields and pair_ok
                detail = 'candidate=(%r,%r) track=(%r,%r)' % (ca, co, ta_, to)
            ctx.check(okq, R, cb, 'metric-query-wiring', detail,
                      'the metric query does not pair (self attributes, left observation) as candidate with (other '
                      'attributes, right observation) as track: %s' % detail, mc.ln)
            # result wiring: every distance record built from this metric call
            recs = []
            for i_ in sorted(cb.live_blocks()):
                for si_, s_ in enumerate(cb.blocks[i_]['st']):
                    if s_['k'] == 'assign' and s_['rv']['k'] == 'agg' and 'ObservationMetricOk' in str(
                            s_['rv'].get('adt', '')):
                        recs.append((ebc._rvalue(s_['rv'], (), 0, (i_, si_)), s_['ln']))
                c_ = cb.call_at(i_)
                if c_ is not None and 'ObservationMetricOk' in c_.callee and c_.name == 'new':
                    recs.append((expand_calls(F, ebc._call(c_, (), 0), only=lambda p_: 'ObservationMetricOk' in p_),
                                 c_.ln))
            for e, ln_ in recs:
                e = subst_upvars(F, cb, e)
                ok_ = [x for x in e.walk() if x.kind == 'agg' and x.name.endswith('ObservationMetricOk::ObservationMetricOk')]
                n += 1
                okr = False
                if ok_:
                    m = dict(zip(ok_[0].extra['fields'], ok_[0].args))
                    am, fd = m['attribute_metric'], m['feature_distance']
                    okr = m['from'].has_field('track_id') and m['to'].has_field('track_id') and \
                        m['from'].has_place(root=('param', 1)) and m['to'].has_place(root=('param', 2)) and \
                        am.has_call('metric') and fd.has_call('metric') and \
                        (am.proj[-1:] == ('0',) or am.fields[-1:] == ('0',) or '.0' in repr(am)[-4:]) and \
                        (fd.proj[-1:] == ('1',) or fd.fields[-1:] == ('1',) or '.1' in repr(fd)[-4:])
                ctx.check(okr, R, cb, 'result-wiring', repr(ok_[0])[:200] if ok_ else '',
                          'the distance record is not built as {from: self.track_id, to: other.track_id, '
                          'attribute_metric: metric().0, feature_distance: metric().1}: %s' % (
                              repr(ok_[0])[:300] if ok_ else repr(e)[:300]), ln_)
    # (b) full product, no short-circuit
    for bb, kind, desc in exits(b):
        if kind != 'ok':
            continue
        d = [x for x in b.defs().get(0, []) if x[1] == bb][0]
        e = eb._rvalue(d[3]['rv'], (), 0, (d[1], d[2]))
        names = [x.name.rsplit('::', 1)[-1] for x in e.walk() if x.kind == 'call']
        bad = [nm for nm in names if nm in SHORT_CIRCUIT]
        n += 1
        prod = e.calls('cartesian_product')
        okp = False
        if prod:
            l, r = prod[0].args[0], prod[0].args[1]
            okp = l.has_place(root=('param', 1), field='observations') and r.has_place(root=('param', 2),
                                                                                       field='observations')
        ctx.check(not bad and (okp or not prod), R, b, 'one-result-per-observation-pair',
                  'adaptors: %s' % [nm for nm in names if nm not in ('iter', 'get', 'deref')],
                  'the pair stream of Track::distances goes through %s: a pair for which the metric yields a value '
                  'can be dropped (%s)' % (bad or 'a product that is not self.observations x other.observations',
                                            [nm for nm in names if nm not in ('iter', 'get', 'deref')]), d[3]['ln'])
        if not prod:
            ctx.note(R, 'Track::distances: pair enumeration not recognised as cartesian_product; product clause not armed')
        # both observation lists are looked up under the requested class
        # (wherever the lookups sit: in the returned chain or ahead of an explicit pair loop)
        gets = []
        for c_ in b.find_calls('std::collections::HashMap::get'):
            r_ = eb.arg(c_, 0)
            if r_.has_field('observations'):
                gets.append((r_, eb.arg(c_, 1)))
        sides = {p_.root for r_, _ in gets for p_ in r_.places() if p_.root[0] == 'param'}
        okc = sides >= {('param', 1), ('param', 2)} and all(
            k_.strip().kind == 'place' and k_.strip().root == ('param', 3) for _, k_ in gets)
        n += 1
        ctx.check(okc, R, b, 'both-sides-use-requested-class', '', 'observations are not looked up under the '
                  'requested feature class on both sides')
    # (b') the missing-class outcome is decided by the LOOKUP alone: a class that is present (even with no observations
    # left) gives the empty product, not the ObservationForClassNotFound report
    for bb, kind, desc in exits(b):
        if kind != 'ok':
            continue
        for k_ in path_conditions(b, bb):
            if k_.kind != 'discr' or k_.expr is None or not k_.expr.has_field('observations'):
                continue
            x_ = k_.expr.strip()
            alts_ = x_.args if x_.kind == 'phi' else [x_]
            bad_ = None
            from lib import scrutinee_none_defs
            from lib import paths_to
            nds_ = []
            for bb_, cs in (scrutinee_none_defs(b, k_) or []):
                nds_ += (paths_to(b, bb_) or [cs])
            for a_ in alts_:
                if a_.kind == 'agg' and a_.name.endswith('None') and not a_.args and a_.site:
                    nds_ += (paths_to(b, a_.site[0]) or [path_conditions(b, a_.site[0])])
            for a_ in alts_:
                if a_.kind == 'call' and a_.name.rsplit('::', 1)[-1] in ('filter', 'and_then', 'take_if', 'filter_map'):
                    bad_ = 'the lookup result goes through `%s`' % a_.name.rsplit('::', 1)[-1]
            for cs_ in nds_:
                if True:
                    if not any(c2.kind == 'discr' and c2.variants == {'None'} and c2.expr is not None and
                               c2.expr.has_call('get') and not any(
                                   y.kind == 'call' and y.name.rsplit('::', 1)[-1] in ('filter', 'take_if', 'and_then', 'filter_map',
                                                                                      'is_empty', 'len', 'then', 'then_some')
                                   for y in c2.expr.walk())
                               for c2 in cs_):
                        bad_ = 'an absent list is produced although the lookup found the class'
            n += 1
            ctx.check(bad_ is None, R, b, 'class-missing-iff-lookup-fails:%s' % ('/'.join(sorted({'self' if p_.root == ('param', 1) else 'other' for p_ in x_.places() if p_.root[0] == 'param' and 'observations' in p_.fields})) or '?'), repr(x_)[:100],
                      'whether a track has observations of the requested class is not decided by the map lookup alone (%s: '
                      '%r): a class that is present but empty is reported as ObservationForClassNotFound on the error '
                      'stream where the query has no pairs and no error' % (bad_, x_), desc.split(' at ')[-1])
    # (c) error kinds
    e0 = eb.place(0, ())
    kinds = {x.name.split('::')[-1] for x in e0.walk() if x.kind == 'agg' and x.name.startswith('Errors::')}
    n += 1
    ctx.check({'IncompatibleAttributes', 'ObservationForClassNotFound'} <= kinds, R, b, 'error-kinds', str(sorted(kinds)),
              'Track::distances no longer reports IncompatibleAttributes / ObservationForClassNotFound (%s)' %
              sorted(kinds))
    return n


def closure_aggregates_(body):
    from lib import closure_aggregates
    return closure_aggregates(body)


def upvar_expr_(F, cb, k):
    from lib import upvar_expr
    return upvar_expr(F, cb, k)


def rule_merge_owned(ctx, R):
    ctx.rule(R, 'merge_owned: the fetched source is returned (only on success, only when asked) or re-added on every '
                'normal path (P7 linear)')
    from lib import every_path_passes
    b = ctx.anchor(R, STORE + '::merge_owned')
    if b is None:
        return
    dd = destroyed(b, r'^(std::option::Option<)?track::Track<')
    ctx.check(not dd, R, b, 'source-never-destroyed', 'no normal-path drop of the fetched source track',
              'the fetched source track can be destroyed on a normal path (%s): it is neither returned nor put back '
              'into the store' % ['bb%d %s at %s' % (x[0], x[3], x[4]) for x in dd],
              dd[0][4] if dd else '')
    # a by-value capture hands the track's fate to the callee (a combinator drops an uncalled closure)
    caps = []
    for bb, si, dp, ops, lhs in closure_aggregates_(b):
        for op in ops:
            if op['k'] == 'move' and not op['pl']['p'] and b.locals[op['pl']['l']].startswith('track::Track<'):
                caps.append((dp, b.blocks[bb]['st'][si]['ln']))
    ctx.check(not caps, R, b, 'source-not-moved-into-closure', '',
              'the fetched source track is moved into a closure (%s): if the combinator it is passed to does not '
              'call the closure (e.g. Result::map on Err) the track is destroyed' % caps, caps[0][1] if caps else '')
    eb = ExprBuilder(b)
    adds = b.find_calls(STORE + '::add_track')
    me = b.find_calls(STORE + '::merge_external')
    if len(me) != 1:
        ctx.fail(R, b, 'merge_external-call', 'ANCHOR-MISSING: merge_owned calls merge_external %d times' % len(me))
        return
    me = me[0]
    n = 0
    for d in b.defs().get(0, []):
        bb = d[1]
        if bb not in b.reach_from(me.bb) or bb == me.bb and d[0] != 'assign':
            continue
        e = eb._rvalue(d[3]['rv'], (), 0, (d[1], d[2])) if d[0] == 'assign' else eb._call(d[2], (), 0)
        hands_out = False
        for x in e.walk():
            if x.kind == 'agg' and x.name.endswith('Option::Some') and x.args:
                v = x.args[0].strip()
                if v.has_call('pop') or v.has_call('fetch_tracks'):
                    hands_out = True
        conds = path_conditions(b, bb)
        n += 1
        site = d[3]['ln'] if d[0] == 'assign' else d[2].ln
        if hands_out:
            okc = any(k.kind == 'discr' and k.variants in ({'Ok'}, {'Continue'}) and any(
                y.kind == 'call' and y.extra is me for y in k.expr.walk()) for k in conds) or any(
                # `res.is_ok()` / `!res.is_err()` on the merge result
                k.kind == 'bool' and k.truth is not None and k.expr.kind == 'call' and
                (k.expr.name.rsplit('::', 1)[-1], k.truth) in (('is_ok', True), ('is_err', False)) and any(
                    y.kind == 'call' and y.extra is me for y in k.expr.walk()) for k in conds)
            flag = [k for k in conds if k.kind == 'bool' and k.expr.strip().kind == 'place' and
                    k.expr.strip().root == ('param', 5)]
            okf = bool(flag) and all(k.truth is True for k in flag)
            ctx.check(okc and okf, R, b, 'source-handed-out-only-on-success-and-when-asked',
                      'Ok(Some(src)) under merge==Ok and remove_src_if_ok',
                      'the source track is handed out (removed from the store) on a path where the merge did not '
                      'succeed or removal was not requested (conditions: %s)' % [str(k) for k in conds], site)
        else:
            ok = every_path_passes(b, me.bb, bb, [a.bb for a in adds])
            ctx.check(ok, R, b, 'source-readded-unless-handed-out@%s' % ('err' if d[0] == 'call' else 'ok'),
                      'add_track(src) on every path from merge_external to this exit',
                      'on a path from merge_external to this exit (%r) the fetched source is neither re-added to the '
                      'store nor handed out: a failed (or non-removing) owned merge loses the source track' % e, site)
    ctx.floor(R, n, 2)
    e = eb.place(0, ())
    ctx.check(any(y.kind == 'agg' and y.name == 'Errors::TrackNotFound' for y in e.walk()), R, b,
              'missing-source-reported', '', 'merge_owned does not report a missing source as TrackNotFound')
    # the merge is requested for (dest_id, fetched source, classes, history flag)
    a = [eb.arg(me, i).strip() for i in range(1, 5)]
    okw = a[0].kind == 'place' and a[0].root == ('param', 2) and (a[1].has_call('pop') or a[1].has_call(
        'fetch_tracks')) and a[2].kind == 'place' and a[2].root == ('param', 4) and a[3].kind == 'place' and \
        a[3].root == ('param', 6)
    ctx.check(okw, R, b, 'merge_external(dest, src, classes, history)', '%s' % a,
              'merge_owned does not forward (dest_id, fetched source, classes, merge_history) to merge_external: %s' % a)
    ft = b.find_calls(STORE + '::fetch_tracks')
    okf = bool(ft) and eb.arg(ft[0], 1).has_place(root=('param', 3))
    ctx.check(okf, R, b, 'fetches-src_id', '', 'merge_owned does not fetch exactly the source id')


def rule_worker_keeps_serving(ctx, R):
    """a shard worker answers every command it will ever get: only `Drop` (shutdown), a closed command channel, and -
    as on the reference tree - an undeliverable FindBaked answer end its loop.  An arm that `return`s because the caller
    of THIS command went away (dropped its future / response) leaves the shard without a worker: every later merge,
    lookup or query on that shard fails or blocks."""
    body, arms = worker_arms(ctx, R)
    if body is None or not arms:
        return 0
    loops = body.loops()
    rbs = recv_block(body)
    rb = rbs[0] if isinstance(rbs, (list, tuple)) and rbs else rbs
    hs = [h for h, bl in loops.items() if rb in bl]
    if not hs:
        ctx.note(R, 'the worker serves its commands without an explicit loop (iterator form): keeps-serving rule not evaluated')
        return 0
    H = max(hs, key=lambda h: len(loops[h]))
    n = 0
    for v, start in sorted(arms.items()):
        if v in ('Drop', 'Err', 'Ok', 'FindBaked'):
            continue
        reach = body.reach_from(start, avoid=(H,))
        ends = [r for r in body.returns() if r in reach]
        n += 1
        ctx.check(not ends, R, body, 'arm:%s-keeps-the-worker-alive' % v, '',
                  'the %s arm of the store worker can end the worker thread (a path from the arm reaches `return` without '
                  'coming back to the command loop): after one undeliverable answer the shard has no worker left and every '
                  'later operation on it fails' % v)
    return n


def rule_reply_channels_per_call(ctx, R):
    """every command a TrackStore method sends to its workers that carries a reply sender carries the sending end of a
    channel created by THAT call (crossbeam unbounded() / bounded() in the same body). A reply channel kept in the store
    and shared between calls lets two concurrent callers (`lookup` takes &self; the trackers call it under a read
    guard) take each other's replies: replies are counted, not attributed."""
    F = ctx.F
    n = 0
    from lib import all_closures
    for b0 in sorted(F.all_bodies(), key=lambda x: x.npath):
        if b0.kind == 'Closure' or not b0.npath.startswith(STORE + '::') or wiring_skip(b0):
            continue
        for b in [b0] + all_closures(F, b0):
            eb = ExprBuilder(b)
            for i in sorted(b.live_blocks()):
                for si, st in enumerate(b.blocks[i]['st']):
                    rv = st.get('rv') if st['k'] == 'assign' else None
                    if not rv or rv.get('k') != 'agg' or rv.get('ak') != 'adt' or not str(rv.get('adt', '')).endswith('Commands'):
                        continue
                    for op in rv['ops']:
                        if op.get('k') not in ('copy', 'move'):
                            continue
                        ty = str(b.locals[op['pl']['l']])
                        if 'Sender<' not in ty:
                            continue
                        e = eb.operand(op, at=(i, si))
                        alts = [a for a in (e.args if e.kind == 'phi' else [e]) if not (a.kind == 'agg' and a.name.endswith('None'))]
                        if not alts:
                            continue
                        from lib import subst_upvars
                        e2 = subst_upvars(F, b, e) if b is not b0 else e
                        created = any(x.kind == 'call' and x.name.rsplit('::', 1)[-1] in ('unbounded', 'bounded') for x in e2.walk())
                        es_ = e2.strip()
                        if not created and es_.kind == 'place' and es_.root[0] == 'param' and not es_.fields and b is not b0:
                            ctx.note(R, 'a closure of %s builds Commands::%s around a sender it receives as its own parameter: '
                                     'not evaluated (no alarm)' % (b0.npath, rv.get('v')))
                            continue
                        if not created and es_.kind == 'place' and es_.root[0] == 'param' and es_.root[1] != 1 and not es_.fields \
                                and b is b0:
                            # the reply sender is handed in by the caller (a private helper that fans the command out):
                            # judged at the callers inside the store
                            cs_ = [(cb_, c_) for cb_, c_ in F.callers().get(b0.npath, []) if not wiring_skip(cb_)]
                            verdicts = []
                            for cb_, c_ in cs_:
                                if es_.root[1] - 1 < len(c_.args):
                                    a_ = ExprBuilder(cb_).arg(c_, es_.root[1] - 1)
                                    verdicts.append(any(x.kind == 'call' and x.name.rsplit('::', 1)[-1] in ('unbounded', 'bounded')
                                                        for x in a_.walk()) and not any(
                                        p.root == ('param', 1) and p.fields for p in a_.places()))
                            if not verdicts:
                                ctx.note(R, '%s receives its reply sender as a parameter and has no caller in the crate: not evaluated' % b0.npath)
                                continue
                            created = all(verdicts)
                        from_self = any(p.root == ('param', 1) and p.fields and b is b0 for p in e2.places()) or \
                            any(p.root == ('param', 1) and p.fields for p in (e2.places() if b is not b0 else []))
                        n += 1
                        ctx.read(b)
                        ctx.check(created and not from_self, R, b0, 'reply-channel-created-by-the-call:%s' % rv.get('v'),
                                  repr(e2)[:80], '%s sends Commands::%s with the reply sender %r: not the sending end of a '
                                  'channel created by this call - callers that run at the same time (lookup takes &self) '
                                  'take each other\'s replies from a shared channel' % (
                                      b0.npath.rsplit('::', 1)[-1], rv.get('v'), e2), st.get('ln'))
    return n


def wiring_skip(b):
    import wiring
    return wiring.skip_body(b)


COPIES = ('to_vec', 'clone', 'to_owned', 'into', 'from', 'iter', 'into_iter', 'cloned', 'copied', 'collect', 'deref', 'as_ref',
          'as_slice', 'borrow', 'unwrap', 'from_iter', 'into_vec', 'unsize', 'extend_from_slice', 'into_boxed_slice',
          'unwrap_or_default', 'unwrap_or', 'unwrap_or_else', 'map', 'map_or', 'map_or_else', 'new', 'default', 'to_vec_in')


def rule_merge_classes_verbatim(ctx, R):
    """the class list of Commands::Merge is the caller's list: a copy of `classes` when it is given, the empty list (= all
    classes of the source, as the worker reads it) only when it is None. A list that is filtered / deduplicated on the
    way can become EMPTY for a request that named classes, and the worker then merges every class of the source."""
    n = 0
    b = ctx.anchor(R, STORE + '::merge_external_noblock')
    if b is None:
        return 0
    import wiring
    pn = {v: k for k, v in wiring.param_names(b).items()}
    if 'classes' not in pn:
        ctx.note(R, 'merge_external_noblock has no `classes` parameter: class-list clause not evaluated')
        return 0
    root = ('param', pn['classes'])
    eb = ExprBuilder(b)
    for i in sorted(b.live_blocks()):
        for si, st in enumerate(b.blocks[i]['st']):
            rv = st.get('rv') if st['k'] == 'assign' else None
            if not rv or rv.get('k') != 'agg' or not str(rv.get('adt', '')).endswith('Commands') or rv.get('v') != 'Merge':
                continue
            for op in rv['ops']:
                if op.get('k') not in ('copy', 'move') or 'Vec<' not in str(b.locals[op['pl']['l']]):
                    continue
                e = eb.operand(op, at=(i, si))
                for a in (e.args if e.kind == 'phi' else [e]):
                    cs = path_conditions(b, a.site[0]) if a.site else []
                    given = any(c.kind == 'discr' and c.variants == {'Some'} and c.expr is not None and c.expr.has_place(root=root)
                                for c in cs)
                    absent = any(c.kind == 'discr' and c.variants == {'None'} and c.expr is not None and
                                 c.expr.has_place(root=root) for c in cs)
                    calls = [x.name.rsplit('::', 1)[-1] for x in a.walk() if x.kind == 'call']
                    n += 1
                    if a.has_place(root=root):
                        bad = [c for c in calls if c not in COPIES]
                        ctx.check(not bad, R, b, 'merge-class-list=the-callers-list', repr(a)[:80],
                                  'the class list sent with Commands::Merge is not a plain copy of `classes` (it goes through '
                                  '%s: %r): a request whose classes are all dropped on the way reaches the worker as the '
                                  'empty list, which the worker reads as "every class of the source"' % (bad, a), st.get('ln'))
                    else:
                        empty = a.kind == 'call' and a.name.rsplit('::', 1)[-1] in ('new', 'default', 'with_capacity') or (
                            a.kind == 'agg' and not a.args)
                        ctx.check(empty and absent and not given, R, b, 'merge-class-list-empty-only-when-none', repr(a)[:80],
                                  'Commands::Merge is sent with %r on a path where `classes` is not None: the worker reads an '
                                  'empty list as "every class of the source"' % (a,), st.get('ln'))
    return n
