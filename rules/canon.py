"""Canonical names: private items that were renamed or moved are read under the names of the REFERENCE tree.

A behaviour-preserving refactoring may rename a private struct, enum, enum variant or field, reorder the fields of a
private struct, or move a type to another module. None of that is behaviour, and none of it may reach a rule. Before any
rule runs, the ADT table of the analysed crate is matched with the ADT table of the reference tree
(rules/baseline_adts.json, written by tools/gen_baseline.py):

  * same def-path                                   -> the same type
  * same leaf name, other module                    -> moved (mir.relocations_of)
  * new type with the structure of a vanished type  -> renamed (kind, and per variant the multiset of field types, with
                                                       module paths stripped, must be the same and the match unique)

and, inside a matched pair, variants are matched by name, then by their field-type signature (unique), fields by name,
then by type (unique). The resulting maps rename type paths (through mir.norm), the `n` / `v` of field projections, the
variant and field names of aggregates and the variant tables of discriminant reads, and the header's ADT table. On the
reference tree every map is empty. A NEW type (no reference counterpart) keeps its own names: rules see its content
through the inliner / payload flattening, never through its names."""
import json
import os
import re

HERE = os.path.dirname(os.path.abspath(__file__))
ADTS = os.path.join(HERE, 'baseline_adts.json')

_LEAF = re.compile(r'\b(?:[a-z_][A-Za-z0-9_]*::)+(?=[A-Za-z_<{(\[&*])')


def leaf(ty):
    """a type string with the module qualifiers of every path removed (insensitive to moves)"""
    ty = re.sub(r'\s+', ' ', ty or '')
    ty = re.sub(r'DefId\([^)]*\)', '', ty)
    prev = None
    while prev != ty:
        prev = ty
        ty = _LEAF.sub('', ty)
    return ty


def variant_sig(v):
    return tuple(sorted(leaf(f['ty']) for f in v['fields']))


def adt_sig(a):
    return (a['kind'].split(' ')[0], tuple(sorted(variant_sig(v) for v in a['variants'])))


_AGG = re.compile(r'"k":"agg","ak":"adt","adt":"([^"]+)","v":"([^"]+)"')
_PATH = re.compile(r'^\{"path":("(?:[^"\\]|\\.)*")')


def built_in(lines):
    """{(adt path, variant): set of leaf names of the functions that construct it} from the body lines of a fact file"""
    out = {}
    for l in lines:
        if '"ak":"adt"' not in l:
            continue
        m = _PATH.match(l)
        if not m:
            continue
        path = json.loads(m.group(1)).split('::{closure', 1)[0]
        fn = re.sub(r'<[^<>]*>', '', path).rsplit('::', 1)[-1]
        for a, v in set(_AGG.findall(l)):
            out.setdefault((a, v), set()).add(fn)
    return out


def load_reference():
    if not os.path.exists(ADTS):
        return None
    return json.load(open(ADTS))


def rename_leaves(ty, adt_leaf_map):
    for cur, ref in adt_leaf_map.items():
        ty = re.sub(r'(?<![A-Za-z0-9_])' + re.escape(cur) + r'(?![A-Za-z0-9_])', ref, ty)
    return ty


class Canon:
    def __init__(self, header, reference, relocations, lines=None):
        """header: first line of the fact file; reference: {path: adt}; relocations: [(cur, ref)] moved items"""
        self.moved = bool(relocations)
        self.adt_pairs = {}          # current path -> reference path
        self.variant = {}            # (reference adt path, current variant) -> reference variant
        self.field = {}              # (reference adt path, reference variant, current field) -> reference field
        self.log = []
        self.reference = reference
        if reference is None:
            return
        cur = {a['path']: a for a in header.get('adts', [])}
        moved = {c: r for c, r in relocations}
        for p in cur:
            if p in reference:
                self.adt_pairs[p] = p
            elif moved.get(p) in reference:
                self.adt_pairs[p] = moved[p]
        new = [p for p in cur if p not in self.adt_pairs]
        gone = [p for p in reference if p not in self.adt_pairs.values()]
        # renamed: unique structural match; iterate because the signature of one type mentions other renamed types
        for _round in range(3):
            leaf_map = {c.rsplit('::', 1)[-1]: r.rsplit('::', 1)[-1] for c, r in self.adt_pairs.items()
                        if c.rsplit('::', 1)[-1] != r.rsplit('::', 1)[-1]}

            def sig(a, m=leaf_map):
                return (a['kind'].split(' ')[0], tuple(sorted(
                    tuple(sorted(rename_leaves(leaf(f['ty']), m) for f in v['fields'])) for v in a['variants'])))
            progress = False
            for n in list(new):
                s = sig(cur[n])
                if not s[1] or all(not v for v in s[1]):
                    continue              # unit-like: nothing to recognise it by
                cands = [g for g in gone if adt_sig(reference[g]) == s]
                same = [m_ for m_ in new if sig(cur[m_]) == s]
                if len(cands) == 1 and len(same) == 1:
                    self.adt_pairs[n] = cands[0]
                    self.log.append('type %s is the reference type %s (renamed)' % (n, cands[0]))
                    new.remove(n)
                    gone.remove(cands[0])
                    progress = True
            if not progress:
                break
        leaf_map = {c.rsplit('::', 1)[-1]: r.rsplit('::', 1)[-1] for c, r in self.adt_pairs.items()
                    if c.rsplit('::', 1)[-1] != r.rsplit('::', 1)[-1]}
        for c, r in self.adt_pairs.items():
            ca, ra = cur[c], reference[r]
            cvs = {v['name']: v for v in ca['variants']}
            rvs = {v['name']: v for v in ra['variants']}
            is_struct = ca['kind'].startswith('Struct') or ca['kind'].startswith('Union')
            vmap = {}
            if is_struct and len(cvs) == 1 and len(rvs) == 1:
                vmap[list(cvs)[0]] = list(rvs)[0]
            else:
                for n in cvs:
                    if n in rvs:
                        vmap[n] = n
                left_c = [n for n in cvs if n not in vmap]
                left_r = [n for n in rvs if n not in vmap.values()]
                for n in left_c:
                    s = tuple(sorted(rename_leaves(leaf(f['ty']), leaf_map) for f in cvs[n]['fields']))
                    cands = [m for m in left_r if variant_sig(rvs[m]) == s]
                    same = [m for m in left_c if tuple(sorted(rename_leaves(leaf(f['ty']), leaf_map)
                                                              for f in cvs[m]['fields'])) == s]
                    if len(cands) == 1 and len(same) == 1:
                        vmap[n] = cands[0]
                # variants with one and the same payload signature: told apart by who constructs them
                left_c = [n for n in cvs if n not in vmap]
                left_r = [n for n in rvs if n not in vmap.values()]
                if left_c and left_r and lines is not None:
                    if not hasattr(self, '_built'):
                        self._built = built_in(lines)
                    for n in left_c:
                        mine = self._built.get((c, n), set())
                        cands = [m for m in left_r if mine and set(rvs[m].get('built_in', [])) == mine]
                        same = [m for m in left_c if self._built.get((c, m), set()) == mine]
                        if len(cands) == 1 and len(same) == 1:
                            vmap[n] = cands[0]
            for cv, rv in vmap.items():
                if cv != rv:
                    self.variant[(r, cv)] = rv
                    self.log.append('%s::%s is the reference variant %s' % (c, cv, rv))
                cf = cvs[cv]['fields']
                rf = rvs[rv]['fields']
                fmap = {}
                rnames = {f['name'] for f in rf}
                positional = all(f['name'].isdigit() for f in cf) and all(f['name'].isdigit() for f in rf)
                if positional:
                    continue            # tuple fields: positions are what they are
                for f in cf:
                    if f['name'] in rnames:
                        fmap[f['name']] = f['name']
                lc = [f for f in cf if f['name'] not in fmap]
                lr = [f for f in rf if f['name'] not in fmap.values()]
                for f in lc:
                    t = rename_leaves(leaf(f['ty']), leaf_map)
                    cands = [g for g in lr if leaf(g['ty']) == t]
                    same = [g for g in lc if rename_leaves(leaf(g['ty']), leaf_map) == t]
                    if len(cands) == 1 and len(same) == 1:
                        fmap[f['name']] = cands[0]['name']
                for a, b in fmap.items():
                    if a != b:
                        self.field[(r, rv, a)] = b
                        self.log.append('%s.%s is the reference field %s' % (c, a, b))

    def match_traits(self, header, ref_items_file):
        """[(current trait path, reference trait path)]: a crate-local trait that is not on the reference tree and is
        implemented for exactly the types a vanished reference trait was implemented for (unique)"""
        if not os.path.exists(ref_items_file):
            return []
        ref_tr = {l.rstrip('\n').split('\t')[1] for l in open(ref_items_file) if l.startswith('trait\t')}
        ref_impls_file = os.path.join(HERE, 'baseline_trait_impls.json')
        if not os.path.exists(ref_impls_file):
            return []
        ref_impls = json.load(open(ref_impls_file))          # trait -> sorted list of self types (leaf form)
        roots = {'track', 'trackers', 'utils', 'distance', 'prelude', 'examples'}
        leaf_map = {c.rsplit('::', 1)[-1]: r.rsplit('::', 1)[-1] for c, r in self.adt_pairs.items()
                    if c.rsplit('::', 1)[-1] != r.rsplit('::', 1)[-1]}
        cur = {}
        for i in header.get('impls', []):
            t = i.get('trait')
            if t and t.split('::', 1)[0] in roots:
                cur.setdefault(t.split('<', 1)[0], set()).add(rename_leaves(leaf(i['self']), leaf_map))
        new = {t: tuple(sorted(v)) for t, v in cur.items() if t not in ref_tr}
        gone = {t: tuple(v) for t, v in ref_impls.items() if t not in cur}
        out = []
        for t, selfs in new.items():
            cands = [g for g, s_ in gone.items() if s_ == selfs]
            same = [u for u, s_ in new.items() if s_ == selfs]
            if len(cands) == 1 and len(same) == 1:
                out.append((t, cands[0]))
                self.log.append('trait %s is the reference trait %s' % (t, cands[0]))
        return out

    @property
    def empty(self):
        return not self.variant and not self.field and all(c == r for c, r in self.adt_pairs.items())

    def renamed_types(self):
        return [(c, r) for c, r in self.adt_pairs.items() if c != r]

    # ---- applying the maps -------------------------------------------------------------------------------------
    def _ref_adt(self, path):
        base = path.split('<', 1)[0]
        return self.adt_pairs.get(base, base)

    def apply(self, v):
        """rename, in place, inside one JSON value of a fact file (a body dict or the header)"""
        if not self.variant and not self.field and not self.renamed_types() and not self.moved:
            return v
        self._walk(v)
        return v

    def _walk(self, v):
        if isinstance(v, list):
            for i, x in enumerate(v):
                # `(_x as Variant).field`: a downcast element takes the variant mapping of the field that follows it
                if isinstance(x, dict) and 'dc' in x and len(x) == 1 and i + 1 < len(v) and isinstance(v[i + 1], dict) \
                        and 'adt' in v[i + 1] and 'n' in v[i + 1]:
                    r = self._ref_adt(v[i + 1]['adt'])
                    x['dc'] = self.variant.get((r, x['dc']), x['dc'])
                self._walk(x)
            return
        if not isinstance(v, dict):
            return
        if 'adt' in v and 'n' in v and 'v' in v and 'k' not in v:            # field projection
            r = self._ref_adt(v['adt'])
            rv = self.variant.get((r, v['v']), v['v'])
            v['n'] = self.field.get((r, rv, v['n']), v['n'])
            v['v'] = rv
            return
        if v.get('k') == 'agg' and v.get('ak') == 'adt' and 'adt' in v:
            r = self._ref_adt(v['adt'])
            rv = self.variant.get((r, v.get('v')), v.get('v'))
            if isinstance(v.get('fields'), list):
                v['fields'] = [self.field.get((r, rv, f), f) for f in v['fields']]
            v['v'] = rv
        elif v.get('k') == 'discr' and 'ty' in v and isinstance(v.get('variants'), list):
            import mir
            v['ty'] = mir.relocate(v['ty'])
            r = self._ref_adt(v['ty'])
            v['variants'] = [[i, self.variant.get((r, n), n)] for i, n in v['variants']]
        for x in v.values():
            self._walk(x)

    def apply_header(self, header):
        for a in header.get('adts', []):
            r = self.adt_pairs.get(a['path'])
            if r is None:
                continue
            for v in a['variants']:
                rv = self.variant.get((r, v['name']), v['name'])
                for f in v['fields']:
                    f['name'] = self.field.get((r, rv, f['name']), f['name'])
                v['name'] = rv
        return header


# ---------------------------------------------------------------------------
# functions


_LT = re.compile(r"'[a-z_][A-Za-z0-9_]*\s*")


def fn_sig(nargs, locals_, leaf_map):
    """(arity, return type, parameter types) with module paths and lifetimes stripped and renamed types written under
    their reference names"""
    def t(x):
        return rename_leaves(_LT.sub('', leaf(x)), leaf_map)
    return (nargs, t(locals_[0]), tuple(t(x) for x in locals_[1:nargs + 1]))


def match_functions(facts, norm, baseline, leaf_map):
    """{current normalised path: reference normalised path} for functions that were renamed and / or moved: a function
    that is not on the reference tree is identified with a reference function that no longer exists at its place when
    their signatures are equal and the match is unique (same-name candidates first)"""
    if not baseline:
        return {}
    rx_head = re.compile(r'"kind":"(\w+)"')
    present = {}
    for np_, paths in facts.norm_index.items():
        for p in paths:
            m = rx_head.search(facts._raw[p][0][:600])
            if m and m.group(1) in ('Fn', 'AssocFn'):
                present.setdefault(np_, p)
    gone = {}
    for np_, sig in baseline.items():
        if np_ not in present and sig[0] is not None and sig[2] is not None:
            s = fn_sig(sig[0], [sig[1]] + [x for x in sig[2].split(' | ') if x], {})
            gone.setdefault(s, []).append(np_)
    if not gone:
        return {}
    new = {}
    for np_, p in present.items():
        if np_ in baseline or '{closure' in np_:
            continue
        d = json.loads(facts._raw[p][0])
        if d.get('expn'):
            continue
        new.setdefault(fn_sig(d['nargs'], d['locals'], leaf_map), []).append(np_)
    out = {}
    for s, cur in new.items():
        refs = list(gone.get(s, []))
        if not refs:
            continue
        cur = list(cur)
        # same name first (moved), then a unique remaining pair (renamed, or renamed and moved)
        for c in list(cur):
            same = [r for r in refs if r.rsplit('::', 1)[-1] == c.rsplit('::', 1)[-1]]
            if len(same) == 1 and len([x for x in cur if x.rsplit('::', 1)[-1] == c.rsplit('::', 1)[-1]]) == 1:
                out[c] = same[0]
                cur.remove(c)
                refs.remove(same[0])
        if len(cur) == 1 and len(refs) == 1:
            out[cur[0]] = refs[0]
    return out
