"""Discovery of private helpers through the call graph from public anchors, so that renaming / moving a private
function does not trip an anchor. Each resolver returns a Body or None; callers fail closed with ANCHOR-MISSING only
when the *public* anchor the discovery starts from is gone or the helper's role cannot be found at all."""
from lib import local_callee_bodies

RECV = 'crossbeam::crossbeam_channel::Receiver::recv'
_cache = {}


def _memo(F, key, fn):
    k = (id(F), key)
    if k not in _cache:
        _cache[k] = fn()
    return _cache[k]


def bodies_receiving(F, type_fragment, module_prefix=None):
    out = []
    for b in F.fn_bodies():
        if b.kind == 'Closure' or b.npath.startswith('examples'):
            continue
        if module_prefix and not b.npath.startswith(module_prefix):
            continue
        for c in b.find_calls(RECV):
            if type_fragment in b.locals[c.dest['l']]:
                out.append(b)
                break
    return out


def store_worker(F):
    """the service loop of a store shard: the body that receives `Commands`"""
    def f():
        bs = bodies_receiving(F, 'track::store::Commands<')
        return bs[0] if len(bs) == 1 else None
    return _memo(F, 'store_worker', f)


def voting_thread(F, module_prefix):
    def f():
        bs = bodies_receiving(F, 'VotingCommands', module_prefix)
        return bs[0] if len(bs) == 1 else None
    return _memo(F, 'voting_thread:' + module_prefix, f)


def callees_of(F, body, prefix):
    out = []
    for c in body.find_calls():
        if c.callee.startswith(prefix):
            for cb in F.get(c.callee):
                if cb not in out:
                    out.append(cb)
    return out


def writes_field(body, field, local=1):
    for i in body.live_blocks():
        for s in body.blocks[i]['st']:
            if s['k'] == 'assign' and s['lhs']['l'] == local and s['lhs']['p'] and isinstance(s['lhs']['p'][-1], dict) \
                    and s['lhs']['p'][-1].get('n') == field:
                return True
    return False


def update_history(F, attrs_path, optimize_path):
    """the attributes method called from optimize() that advances track_length"""
    def f():
        ob = F.one(optimize_path)
        if ob is None:
            return None
        for cb in callees_of(F, ob, attrs_path + '::'):
            if writes_field(cb, 'track_length'):
                return cb
        return None
    return _memo(F, 'update_history:' + attrs_path, f)


VIS = 'trackers::visual_sort::metric::VisualMetric'
VIS_METRIC = '<trackers::visual_sort::metric::VisualMetric as track::ObservationMetric>'


def visual_helper(F, role):
    """role in {'usable', 'visual', 'positional', 'gallery'}"""
    def f():
        mb = F.one(VIS_METRIC + '::metric')
        ob = F.one(VIS_METRIC + '::optimize')
        if role == 'gallery':
            if ob is None:
                return None
            for cb in callees_of(F, ob, VIS + '::'):
                if cb.find_calls('std::vec::Vec::truncate') or cb.find_calls('std::vec::Vec::retain'):
                    return cb
            return None
        if mb is None:
            return None
        cands = callees_of(F, mb, VIS + '::')
        # helpers of helpers (one level)
        for cb in list(cands):
            for x in callees_of(F, cb, VIS + '::'):
                if x not in cands:
                    cands.append(x)
        for cb in cands:
            ret = cb.locals[0]
            params = ' | '.join(cb.locals[1:cb.nargs + 1])
            if role == 'usable' and ret == 'bool':
                return cb
            if role == 'visual' and 'Option<f32>' in ret and ('f32x8' in params or 'track::Feature' in params):
                return cb
            if role == 'positional' and 'Option<f32>' in ret and 'Universal2DBox' in params and \
                    'track::Feature' not in params and 'f32x8' not in params:
                return cb
        return None
    return _memo(F, 'visual_helper:' + role, f)


def kalman_helper(F, flt, role):
    """role in {'std_position', 'std_velocity', 'project'} for filter type path `flt`"""
    def f():
        for m in ('predict', 'initiate', 'update', 'distance'):
            b = F.one(flt + '::' + m)
            if b is None:
                continue
            for cb in callees_of(F, b, flt + '::'):
                names = set()
                for i in cb.live_blocks():
                    for s in cb.blocks[i]['st']:
                        if s['k'] == 'assign':
                            txt = str(s['rv'])
                            if 'std_position_weight' in txt:
                                names.add('pos')
                            if 'std_velocity_weight' in txt:
                                names.add('vel')
                if role == 'std_position' and names == {'pos'}:
                    return cb
                if role == 'std_velocity' and names == {'vel'}:
                    return cb
                if role == 'project' and 'KalmanState' in cb.locals[0] and cb.d.get('vis') != 'Public' and \
                        m in ('update', 'distance'):
                    return cb
        return None
    return _memo(F, 'kalman:%s:%s' % (flt, role), f)
