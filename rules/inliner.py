"""MIR-level inlining of NEW private helpers.

A behaviour-preserving refactor very often extracts part of a function into a new private helper. The rules are
anchored on the functions that exist on the reference tree; a callee that did not exist there (rules/baseline_fns.txt)
and is crate-local is spliced into its callers before any rule runs, so the rules see the same shape as before the
extraction. On the reference tree nothing is inlined (every function is in the baseline), so verdicts there do not
depend on this module."""
import copy
import os

HERE = os.path.dirname(os.path.abspath(__file__))
BASELINE = os.path.join(HERE, 'baseline_fns.txt')
MAX_DEPTH = 4
MAX_BLOCKS = 4000


def load_baseline():
    """{normalised path: (nargs, return type)} of the functions of the reference tree"""
    if not os.path.exists(BASELINE):
        return None
    out = {}
    with open(BASELINE) as f:
        for l in f:
            l = l.rstrip('\n')
            if not l:
                continue
            parts = l.split('\t')
            out[parts[0]] = (int(parts[1]), parts[2]) if len(parts) >= 3 else (None, None)
    return out


def scope_of(np_):
    return np_.rsplit('::', 1)[0] if '::' in np_ else ''


def renamed_helpers(facts, norm):
    """new functions that are most likely RENAMED reference functions (same scope, same arity and return type as a
    reference function that no longer exists): they keep their role (helper discovery finds them) and are not inlined"""
    import json
    import re
    base = facts.baseline
    present = {}
    rx_kind = re.compile(r'"kind":"(\w+)"')
    for np_, paths in facts.norm_index.items():
        for p in paths:
            raw = facts._raw[p][0]
            m = rx_kind.search(raw[:400])
            if m and m.group(1) in ('Fn', 'AssocFn'):
                present[np_] = p
    missing = {}
    for np_, sig in base.items():
        if np_ not in present:
            missing.setdefault((scope_of(np_), sig), []).append(np_)
    out = set()
    if not missing:
        return out
    new = [np_ for np_ in present if np_ not in base]
    for np_ in new:
        d = json.loads(facts._raw[present[np_]][0])
        sig = (d['nargs'], d['locals'][0])
        scope = scope_of(np_)
        # same scope, or a sibling impl block of the same type (`impl T { .. }` split in two prints the same scope)
        if missing.get((scope, sig)):
            out.add(np_)
    return out


def _shift(v, lo, bo):
    """renumber locals (+lo) and blocks (+bo) in a JSON value, in place"""
    if isinstance(v, list):
        for x in v:
            _shift(x, lo, bo)
        return
    if not isinstance(v, dict):
        return
    if 'l' in v and 'p' in v and isinstance(v['l'], int):          # place
        v['l'] += lo
        for e in v['p']:
            if isinstance(e, dict) and 'idx' in e:
                e['idx'] += lo
        return
    if v.get('k') in ('dead', 'live') and isinstance(v.get('l'), int):
        v['l'] += lo
        return
    for key, x in v.items():
        if key in ('target', 'unwind', 'otherwise') and isinstance(x, int):
            v[key] = x + bo
        elif key == 'targets':
            for t in x:
                t[1] += bo
        else:
            _shift(x, lo, bo)


def inline_once(d, bb, callee):
    """splice callee dict into d at the call terminating block bb"""
    t = d['blocks'][bb]['t']
    lo, bo = len(d['locals']), len(d['blocks'])
    c = copy.deepcopy(callee)
    d['locals'] = d['locals'] + c['locals']
    for v in c.get('dbg', []):
        v = dict(v)
        v['pl'] = copy.deepcopy(v['pl'])
        _shift(v['pl'], lo, 0)
        v['arg'] = None
        d['dbg'].append(v)
    ln = t.get('ln', '')
    # arguments
    for i, a in enumerate(t['args']):
        d['blocks'][bb]['st'].append({'k': 'assign', 'lhs': {'l': lo + 1 + i, 'p': []},
                                      'rv': {'k': 'use', 'op': a}, 'ln': ln, 'x': False})
    cleanup = d['blocks'][bb]['cleanup']
    for blk in c['blocks']:
        _shift(blk, lo, bo)
        if cleanup:
            blk['cleanup'] = True
        if blk['t']['k'] == 'return':
            blk['st'].append({'k': 'assign', 'lhs': copy.deepcopy(t['dest']),
                              'rv': {'k': 'use', 'op': {'k': 'move', 'pl': {'l': lo, 'p': []}}}, 'ln': ln, 'x': False})
            blk['t'] = {'k': 'goto', 'target': t['target']} if t['target'] is not None else {'k': 'unreachable'}
        elif blk['t']['k'] == 'resume' and isinstance(t.get('unwind'), int):
            blk['t'] = {'k': 'goto', 'target': t['unwind']}
        d['blocks'].append(blk)
    d['blocks'][bb]['t'] = {'k': 'goto', 'target': bo}
    d.setdefault('inlined', []).append(callee['path'])


def inline_new_helpers(facts, d, norm, depth=0, stack=()):
    """returns d with every call to a crate-local function that is not in the baseline inlined (recursively)"""
    base = facts.baseline
    if base is None or depth > MAX_DEPTH:
        return d
    if getattr(facts, '_renamed', None) is None:
        facts._renamed = renamed_helpers(facts, norm)
    keep = facts._renamed
    changed = True
    guard = 0
    while changed and len(d['blocks']) < MAX_BLOCKS and guard < 64:
        changed = False
        guard += 1
        for bb, blk in enumerate(d['blocks']):
            t = blk['t']
            if t['k'] != 'call' or t['f'].get('k') != 'const':
                continue
            cst = t['f'].get('c', {})
            raw = cst.get('fn')
            if not raw:
                continue
            for cand in (cst.get('res'), raw):
                if not cand:
                    continue
                np_ = norm(cand)
                if np_ in base or np_ in keep or np_ in stack or np_ == norm(d['path']):
                    continue
                paths = facts.norm_index.get(np_, [])
                if len(paths) != 1 or len(facts._raw[paths[0]]) != 1:
                    continue
                import json
                cd = json.loads(facts._raw[paths[0]][0])
                if cd['kind'] not in ('Fn', 'AssocFn') or cd.get('expn') or cd['nargs'] != len(t['args']):
                    continue
                cd = inline_new_helpers(facts, cd, norm, depth + 1, stack + (norm(d['path']),))
                inline_once(d, bb, cd)
                changed = True
                break
            if changed:
                break
    return d
