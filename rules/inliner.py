"""MIR-level inlining of NEW private helpers.

A behaviour-preserving refactor very often extracts part of a function into a new private helper. The rules are
anchored on the functions that exist on the reference tree; a callee that did not exist there (rules/baseline_fns.txt)
and is crate-local is spliced into its callers before any rule runs, so the rules see the same shape as before the
extraction. On the reference tree nothing is inlined (every function is in the baseline), so verdicts there do not
depend on this module."""
import copy
import os

HERE = os.path.dirname(os.path.abspath(__file__))
BASELINE = os.path.join(HERE, 'baseline_fns.txt')
MAX_DEPTH = 4
MAX_BLOCKS = 4000


def load_baseline():
    """{normalised path: (nargs, return type)} of the functions of the reference tree"""
    if not os.path.exists(BASELINE):
        return None
    out = {}
    with open(BASELINE) as f:
        for l in f:
            l = l.rstrip('\n')
            if not l:
                continue
            parts = l.split('\t')
            out[parts[0]] = (int(parts[1]), parts[2], parts[3] if len(parts) > 3 else None) if len(parts) >= 3 \
                else (None, None, None)
    return out


def scope_of(np_):
    return np_.rsplit('::', 1)[0] if '::' in np_ else ''


def renamed_helpers(facts, norm):
    """new functions that are most likely RENAMED reference functions (same scope, same arity and return type as a
    reference function that no longer exists): they keep their role (helper discovery finds them) and are not inlined"""
    import json
    import re
    base = facts.baseline
    present = {}
    rx_kind = re.compile(r'"kind":"(\w+)"')
    for np_, paths in facts.norm_index.items():
        for p in paths:
            raw = facts._raw[p][0]
            m = rx_kind.search(raw[:400])
            if m and m.group(1) in ('Fn', 'AssocFn'):
                present[np_] = p
    # RE-SIGNED: a reference function that still exists under its name but takes a different number of parameters
    # (`std_position(&self, k, cnst, p)` -> `std_position(&self, scale, p)`): positional reading of its call sites
    # would be wrong, so it is treated like a new helper (spliced into its callers)
    rx_nargs = re.compile(r'"nargs":(\d+)')
    resigned = set()
    for np_, sig in base.items():
        if np_ in present and sig[0] is not None and len(facts.norm_index.get(np_, [])) == 1:
            m = rx_nargs.search(facts._raw[present[np_]][0][:4000])
            if m and int(m.group(1)) != sig[0]:
                resigned.add(np_)
    facts._resigned = resigned
    missing = {}
    for np_, sig in base.items():
        if np_ not in present:
            missing.setdefault((scope_of(np_), sig), []).append(np_)
    out = set()
    if not missing:
        return out
    moved = {}
    for (scope, sig), nps in missing.items():
        for np_ in nps:
            moved.setdefault((np_.rsplit('::', 1)[-1], sig), []).append(np_)
    new = [np_ for np_ in present if np_ not in base]
    for np_ in new:
        d = facts.load_dicts(present[np_])[0]
        # a rename keeps arity, return type AND parameter types (a helper that merges two old ones, or passes its
        # inputs differently, is a new function: it is spliced into its callers instead)
        sig = (d['nargs'], d['locals'][0], ' | '.join(d['locals'][1:d['nargs'] + 1]))
        scope = scope_of(np_)
        # same scope, or a sibling impl block of the same type (`impl T { .. }` split in two prints the same scope)
        if missing.get((scope, sig)):
            out.add(np_)
        # MOVED: same name, arity and return type as a reference function that no longer exists at its old place (an
        # impl block relocated to another module prints a different path: `m::<impl From<X> for T>::from` becomes
        # `<T as From<X>>::from`)
        elif moved.get((np_.rsplit('::', 1)[-1], sig)):
            out.add(np_)
    return out


def _shift(v, lo, bo):
    """renumber locals (+lo) and blocks (+bo) in a JSON value, in place"""
    if isinstance(v, list):
        for x in v:
            _shift(x, lo, bo)
        return
    if not isinstance(v, dict):
        return
    if 'l' in v and 'p' in v and isinstance(v['l'], int):          # place
        v['l'] += lo
        for e in v['p']:
            if isinstance(e, dict) and 'idx' in e:
                e['idx'] += lo
        return
    if v.get('k') in ('dead', 'live') and isinstance(v.get('l'), int):
        v['l'] += lo
        return
    for key, x in v.items():
        if key in ('target', 'unwind', 'otherwise') and isinstance(x, int):
            v[key] = x + bo
        elif key == 'targets':
            for t in x:
                t[1] += bo
        else:
            _shift(x, lo, bo)


def _rename_local(v, a, b):
    """replace local a by local b (whole places only change their base) in a JSON value, in place"""
    if isinstance(v, list):
        for x in v:
            _rename_local(x, a, b)
        return
    if not isinstance(v, dict):
        return
    if 'l' in v and 'p' in v and isinstance(v['l'], int):
        if v['l'] == a:
            v['l'] = b
        for e in v['p']:
            if isinstance(e, dict) and e.get('idx') == a:
                e['idx'] = b
        return
    if v.get('k') in ('dead', 'live') and isinstance(v.get('l'), int):
        if v['l'] == a:
            v['l'] = b
        return
    for x in v.values():
        _rename_local(x, a, b)


def inline_once(d, bb, callee):
    """splice callee dict into d at the call terminating block bb"""
    t = d['blocks'][bb]['t']
    lo, bo = len(d['locals']), len(d['blocks'])
    import json
    c = json.loads(json.dumps(callee))      # a private copy WITHOUT shared sub-objects (renumbering is in place)
    d['locals'] = d['locals'] + c['locals']
    for v in c.get('dbg', []):
        v = dict(v)
        v['pl'] = copy.deepcopy(v['pl'])
        _shift(v['pl'], lo, 0)
        v['arg'] = None
        d['dbg'].append(v)
    ln = t.get('ln', '')
    # arguments
    for i, a in enumerate(t['args']):
        d['blocks'][bb]['st'].append({'k': 'assign', 'lhs': {'l': lo + 1 + i, 'p': []},
                                      'rv': {'k': 'use', 'op': a}, 'ln': ln, 'x': False})
    cleanup = d['blocks'][bb]['cleanup']
    # the callee's return place IS the destination when that is a plain local: the sites that give the result its
    # value stay separate definitions of the destination (with their own path conditions), exactly as if the code had
    # been written in place
    direct = not t['dest']['p'] and \
        not any(a.get('pl', {}).get('l') == t['dest']['l'] for a in t['args'] if isinstance(a, dict))
    for blk in c['blocks']:
        _shift(blk, lo, bo)
        if direct:
            _rename_local(blk, lo, t['dest']['l'])
        if cleanup:
            blk['cleanup'] = True
        if blk['t']['k'] == 'return':
            if not direct:
                blk['st'].append({'k': 'assign', 'lhs': copy.deepcopy(t['dest']),
                                  'rv': {'k': 'use', 'op': {'k': 'move', 'pl': {'l': lo, 'p': []}}}, 'ln': ln,
                                  'x': False})
            blk['t'] = {'k': 'goto', 'target': t['target']} if t['target'] is not None else {'k': 'unreachable'}
        elif blk['t']['k'] == 'resume' and isinstance(t.get('unwind'), int):
            blk['t'] = {'k': 'goto', 'target': t['unwind']}
        d['blocks'].append(blk)
    d['blocks'][bb]['t'] = {'k': 'goto', 'target': bo}
    d.setdefault('inlined', []).append(callee['path'])


def _bind_self(facts, cd, norm, trait, self_ty):
    """in the body of a trait default method, turn `<Self as Trait>::m(..)` into `<self_ty as Trait>::m(..)`"""
    for blk in cd['blocks']:
        t = blk['t']
        if t['k'] != 'call' or t['f'].get('k') != 'const':
            continue
        c = t['f'].get('c', {})
        if c.get('trait') != trait or not c.get('ga') or c['ga'][0] != 'Self' or c.get('res'):
            continue
        name = c.get('fn', '').rsplit('::', 1)[-1]
        key = '<%s as %s>::%s' % (norm(self_ty), norm(trait), name)
        paths = facts.norm_index.get(key, [])
        c['ga'] = [self_ty] + list(c['ga'][1:])
        if len(paths) == 1:
            c['res'] = paths[0]


def inline_new_helpers(facts, d, norm, depth=0, stack=()):
    """returns d with every call to a crate-local function that is not in the baseline inlined (recursively)"""
    base = facts.baseline
    if base is None or depth > MAX_DEPTH:
        return d
    if getattr(facts, '_renamed', None) is None:
        facts._renamed = renamed_helpers(facts, norm)
    keep = facts._renamed
    changed = True
    guard = 0
    while changed and len(d['blocks']) < MAX_BLOCKS and guard < 64:
        changed = False
        guard += 1
        for bb, blk in enumerate(d['blocks']):
            t = blk['t']
            if t['k'] == 'call' and t['f'].get('k') in ('move', 'copy'):
                # call through a fn pointer whose value is a known fn item (after inlining: a helper parametrised by
                # a function) -> direct call
                r = _resolve_callable(d, t['f'])
                if r is not None and r.get('k') == 'const' and r.get('c', {}).get('fn'):
                    t['f'] = {'k': 'const', 'c': copy.deepcopy(r['c'])}
                    d.setdefault('devirtualised', []).append(r['c']['fn'])
            if t['k'] != 'call' or t['f'].get('k') != 'const':
                continue
            cst = t['f'].get('c', {})
            raw = cst.get('fn')
            if not raw:
                continue
            if norm(raw) == 'std::convert::Into::into' and len(t['args']) == 1 and t.get('dest') and not t['dest']['p']:
                # `x.into()` resolves to the blanket impl in std; when the target type has a crate-local
                # `impl From<typeof x>` that is new on this tree, the call IS that `from` (so it can be spliced)
                dty = d['locals'][t['dest']['l']]
                key = '<%s as std::convert::From>::from' % norm(dty.split('<')[0]) if dty else None
                cands_ = [p_ for p_ in facts.norm_index.get(key, [])] if key else []
                a0 = t['args'][0]
                aty = d['locals'][a0['pl']['l']] if a0.get('k') in ('copy', 'move') and not a0['pl']['p'] else None
                pick = []
                for p_ in cands_:
                    for l_ in facts._raw[p_]:
                        import json as _json
                        cd_ = _json.loads(l_)
                        if cd_.get('nargs') == 1 and (aty is None or cd_['locals'][1] == aty):
                            pick.append(p_)
                if len(set(pick)) == 1 and key not in base:
                    cst = dict(cst)
                    cst['res'] = pick[0]
            for cand in (cst.get('res'), raw):
                if not cand:
                    continue
                np_ = norm(cand)
                if (np_ in base and np_ not in getattr(facts, '_resigned', ())) or np_ in keep or np_ in stack or \
                        np_ == norm(d['path']):
                    continue
                paths = facts.norm_index.get(np_, [])
                if len(paths) != 1 or len(facts._raw[paths[0]]) != 1:
                    continue
                import json
                cd = facts.load_dicts(paths[0])[0]
                if cd['kind'] not in ('Fn', 'AssocFn') or cd.get('expn') or cd['nargs'] != len(t['args']):
                    continue
                if cst.get('trait') and cst.get('ga') and cst['ga'][0] != 'Self':
                    # a default method of a (new) trait called on a concrete type: calls on `Self` inside its body
                    # are calls on that type — resolve them to the impl that provides them
                    _bind_self(facts, cd, norm, cst['trait'], cst['ga'][0])
                cd = inline_new_helpers(facts, cd, norm, depth + 1, stack + (norm(d['path']),))
                inline_once(d, bb, cd)
                changed = True
                break
            if changed:
                break
    return d


# ---------------------------------------------------------------------------
# Desugaring of std combinators on Option / Result / bool into explicit control flow.
#
# `opt.map(|x| e)`, `.and_then(..)`, `.filter(..)`, `.unwrap_or_else(..)`, `.map_or(d, f)`, `a.zip(b)`,
# `.is_some_and(..)`, `.ok_or_else(..)`, `cond.then(|| e)`, `cond.then_some(v)`, `res.map(..)`, `.and_then(..)`,
# `.map_err(..)` are rewritten, at the MIR level, into the `match` they abbreviate, with the closure body spliced in.
# Every rule then sees the same path conditions and value flow whether the code is written with combinators or with
# explicit `match` / `if let` — on the reference tree as well as on a refactored one.

OPT = 'std::option::Option'
RES = 'std::result::Result'
OPT_VARIANTS = [['0', 'None'], ['1', 'Some']]
RES_VARIANTS = [['0', 'Ok'], ['1', 'Err']]

COMBINATORS = {
    'std::option::Option::map': 'opt_map', 'std::option::Option::and_then': 'opt_and_then',
    'std::option::Option::filter': 'opt_filter', 'std::option::Option::unwrap_or_else': 'opt_unwrap_or_else',
    'std::option::Option::map_or': 'opt_map_or', 'std::option::Option::zip': 'opt_zip',
    'std::option::Option::is_some_and': 'opt_is_some_and', 'std::option::Option::ok_or_else': 'opt_ok_or_else',
    'std::option::Option::or_else': 'opt_or_else', 'std::option::Option::map_or_else': 'opt_map_or_else',
    'std::option::Option::unwrap_or_default': None, 'std::result::Result::map_or_else': 'res_map_or_else',
    'std::result::Result::unwrap_or_else': 'res_unwrap_or_else', 'std::result::Result::map_or': 'res_map_or',
    'std::result::Result::or_else': 'res_or_else', 'std::result::Result::ok_or_else': None,
    'std::result::Result::map': 'res_map', 'std::result::Result::and_then': 'res_and_then',
    'std::result::Result::map_err': 'res_map_err',
}
BOOL_COMBINATORS = {'then': 'bool_then', 'then_some': 'bool_then_some'}
FN_CALLS = {'std::ops::Fn::call', 'std::ops::FnMut::call_mut', 'std::ops::FnOnce::call_once'}


def _new_local(d, ty):
    d['locals'] = d['locals'] + [ty]
    return len(d['locals']) - 1


def _new_block(d, st, t, cleanup=False):
    d['blocks'].append({'cleanup': cleanup, 'st': st, 't': t})
    return len(d['blocks']) - 1


def _mv(l):
    return {'k': 'move', 'pl': {'l': l, 'p': []}}


def _pl(l):
    return {'l': l, 'p': []}


def _assign(lhs, rv, ln):
    return {'k': 'assign', 'lhs': lhs, 'rv': rv, 'ln': ln, 'x': False}


def _agg(adt, v, ops):
    return {'k': 'agg', 'ak': 'adt', 'adt': adt, 'v': v, 'fields': [str(i) for i in range(len(ops))], 'ops': ops}


def _payload(l, adt, variant):
    return {'l': l, 'p': [{'dc': variant}, {'f': 0, 'n': '0', 'adt': adt, 'v': variant}]}


def _goto(t):
    return {'k': 'goto', 'target': t} if t is not None else {'k': 'unreachable'}


def _as_local(d, blk, op, ln, ty='?'):
    """operand -> local holding it (statements appended to blk)"""
    if op['k'] in ('move', 'copy') and not op['pl']['p']:
        return op['pl']['l']
    l = _new_local(d, ty)
    blk['st'].append(_assign(_pl(l), {'k': 'use', 'op': op}, ln))
    return l


def _switch_variant(d, blk, local, adt, variants, targets, ln):
    """terminate blk with a switch on the variant of `local`; targets: {variant name: bb}"""
    disc = _new_local(d, 'isize')
    blk['st'].append(_assign(_pl(disc), {'k': 'discr', 'pl': _pl(local), 'ty': adt + '<..>', 'variants': variants}, ln))
    unreachable = _new_block(d, [], {'k': 'unreachable'})
    blk['t'] = {'k': 'switch', 'discr': _mv(disc), 'ty': 'isize',
                'targets': [[v, targets[n]] for v, n in variants], 'otherwise': unreachable, 'ln': ln, 'x': False}


def _closure_def_of(d, local):
    """def path of the closure aggregate assigned to `local` (exactly one construction site), else None"""
    found = None
    for blk in d['blocks']:
        for s in blk['st']:
            if s['k'] == 'assign' and s['lhs']['l'] == local and not s['lhs']['p']:
                rv = s['rv']
                if rv['k'] == 'agg' and rv.get('ak') == 'closure':
                    if found is not None:
                        return None
                    found = rv['def']
                elif rv['k'] == 'use' and rv['op']['k'] in ('move', 'copy') and not rv['op']['pl']['p']:
                    inner = _closure_def_of(d, rv['op']['pl']['l'])
                    if inner is None or found is not None:
                        return None
                    found = inner
                else:
                    return None
    return found


def _resolve_callable(d, op, depth=0):
    """follow `&x`, `move x`, `copy x` back to the closure local or the fn-item constant that is being called"""
    if depth > 6:
        return None
    if op['k'] == 'const':
        return op if op.get('c', {}).get('fn') else None
    if op['k'] not in ('move', 'copy') or [p for p in op['pl']['p'] if p != '*']:
        return None
    l = op['pl']['l']
    if _closure_def_of(d, l) is not None:
        return {'k': 'move', 'pl': {'l': l, 'p': []}}
    src = None
    for blk in d['blocks']:
        for s_ in blk['st']:
            if s_['k'] == 'assign' and s_['lhs']['l'] == l and not s_['lhs']['p']:
                if src is not None:
                    return None
                src = s_['rv']
    if src is None:
        return None
    if src['k'] == 'use':
        return _resolve_callable(d, src['op'], depth + 1)
    if src['k'] == 'cast' and 'FnPointer' in src.get('ck', '') and isinstance(src.get('op'), dict):
        # `f as fn(..) -> ..` / a fn item or closure handed over as a fn pointer
        return _resolve_callable(d, src['op'], depth + 1)
    if src['k'] == 'ref' and not [p for p in src['pl']['p'] if p != '*']:
        return _resolve_callable(d, {'k': 'copy', 'pl': {'l': src['pl']['l'], 'p': []}}, depth + 1)
    return None


def _tuple_ops(d, op):
    """operands of the argument tuple of Fn::call (the tuple is built right before the call)"""
    if op['k'] not in ('move', 'copy') or op['pl']['p']:
        return None
    l = op['pl']['l']
    found = None
    for blk in d['blocks']:
        for s_ in blk['st']:
            if s_['k'] == 'assign' and s_['lhs']['l'] == l and not s_['lhs']['p']:
                if found is not None:
                    return None
                rv = s_['rv']
                if rv['k'] == 'agg' and rv.get('ak') == 'tuple':
                    found = list(rv['ops'])
                else:
                    return None
    return found


def _emit_fn_value_call(facts, d, norm, fop, arg_ops, dest, target, ln, depth):
    """block that evaluates `f(args)` into `dest` and continues at `target`, where f is a closure local (its body is
    spliced in) or a fn item. Returns the entry block index, or None when f cannot be resolved."""
    import json
    if fop['k'] in ('move', 'copy') and not fop['pl']['p']:
        floc = fop['pl']['l']
        dp = _closure_def_of(d, floc)
        if dp is None:
            return None
        # exact def path first (two impls of one trait normalise to the same path)
        paths = [dp] if dp in facts._raw else facts.norm_index.get(norm(dp), [])
        if len(paths) != 1 or len(facts._raw[paths[0]]) != 1:
            return None
        cd = facts.load_dicts(paths[0])[0]
        if cd['nargs'] != len(arg_ops) + 1:
            return None
        cd = prepare_body(facts, cd, norm, depth + 1)
        env_ty = cd['locals'][1]
        st = []
        if env_ty.startswith('&mut '):
            env = _new_local(d, env_ty)
            st.append(_assign(_pl(env), {'k': 'ref', 'mut': True, 'pl': _pl(floc)}, ln))
            env_op = _mv(env)
        elif env_ty.startswith('&'):
            env = _new_local(d, env_ty)
            st.append(_assign(_pl(env), {'k': 'ref', 'mut': False, 'pl': _pl(floc)}, ln))
            env_op = _mv(env)
        else:
            env_op = _mv(floc)
        b = _new_block(d, st, {'k': 'call', 'f': {'k': 'const', 'c': {'fn': cd['path'], 'ty': ''}},
                               'args': [env_op] + arg_ops, 'dest': dest, 'target': target, 'unwind': None, 'ln': ln,
                               'x': False, 'fx': False})
        inline_once(d, b, cd)
        return b
    if fop['k'] == 'const' and fop.get('c', {}).get('fn'):
        c = fop['c']
        b = _new_block(d, [], {'k': 'call', 'f': {'k': 'const', 'c': dict(c)}, 'args': list(arg_ops), 'dest': dest,
                               'target': target, 'unwind': None, 'ln': ln, 'x': False, 'fx': False})
        paths = facts.norm_index.get(norm(c['fn']), [])
        base_ = getattr(facts, 'baseline', None) or {}
        if norm(c['fn']) in base_ and norm(c['fn']) not in getattr(facts, '_resigned', ()):
            # a function of the reference tree handed over by name (`dispatch(euclidean)`): the call through the
            # function value is a direct call of that function - it keeps its name for the rules that look for it
            return b
        if len(paths) == 1 and len(facts._raw[paths[0]]) == 1:
            cd = facts.load_dicts(paths[0])[0]
            if cd['kind'] in ('Fn', 'AssocFn') and cd['nargs'] == len(arg_ops):
                inline_once(d, b, prepare_body(facts, cd, norm, depth + 1))
        return b
    return None


def desugar_combinators(facts, d, norm, depth=0):
    if depth > 3:
        return d
    changed = True
    rounds = 0
    while changed and rounds < 40 and len(d['blocks']) < MAX_BLOCKS:
        changed = False
        rounds += 1
        for bb in range(len(d['blocks'])):
            blk = d['blocks'][bb]
            t = blk['t']
            if t['k'] != 'call' or blk['cleanup'] or t['f'].get('k') != 'const' or t['dest']['p']:
                continue
            fn = t['f'].get('c', {}).get('fn')
            if not fn:
                continue
            np_ = norm(fn)
            kind = COMBINATORS.get(np_)
            if kind is None and ('bool' in np_) and np_.rsplit('::', 1)[-1] in BOOL_COMBINATORS:
                kind = BOOL_COMBINATORS[np_.rsplit('::', 1)[-1]]
            if kind is None and np_ in FN_CALLS:
                kind = 'fn_call'
            if kind is None or t['target'] is None:
                continue
            if _desugar_one(facts, d, norm, bb, kind, depth):
                d.setdefault('desugared', []).append(np_)
                changed = True
                break
    return d


def _desugar_one(facts, d, norm, bb, kind, depth):
    blk = d['blocks'][bb]
    t = blk['t']
    ln = t.get('ln', '')
    D = t['dest']
    T = t['target']
    args = t['args']
    nst = len(blk['st'])
    nlocals = len(d['locals'])
    nblocks = len(d['blocks'])

    def undo():
        del blk['st'][nst:]
        d['locals'] = d['locals'][:nlocals]
        del d['blocks'][nblocks:]
        blk['t'] = t
        return False

    def set_dest_block(rv, then=T):
        return _new_block(d, [_assign(D, rv, ln)], _goto(then))

    if kind == 'fn_call':
        # `f(a, b)` through the Fn traits where f is (a reference to) a known closure or fn item: call it directly
        fop = _resolve_callable(d, args[0]) if len(args) == 2 else None
        ops = _tuple_ops(d, args[1]) if fop is not None else None
        if fop is None or ops is None:
            return False
        if fop['k'] == 'const':
            paths = facts.norm_index.get(norm(fop['c']['fn']), [])
            if len(paths) != 1:
                # a tuple-variant / tuple-struct constructor handed over as a function (`make: Commands::FindBaked`):
                # calling it builds that variant
                np_c = norm(fop['c']['fn'])
                if '::' in np_c:
                    en, vn = np_c.rsplit('::', 1)
                    adt_ = getattr(facts, 'adts', {}).get(en) or getattr(facts, 'adts', {}).get(np_c)
                    if adt_ is not None:
                        vs = [v_ for v_ in adt_.get('variants', []) if v_.get('name') == vn]
                        if len(vs) == 1 and len(vs[0].get('fields', [])) == len(ops):
                            raw_adt = adt_.get('path', en)
                            agg = {'k': 'agg', 'ak': 'adt', 'adt': raw_adt, 'v': vn,
                                   'fields': [f_.get('name', str(k_)) for k_, f_ in enumerate(vs[0]['fields'])], 'ops': ops}
                            nb = _new_block(d, [_assign(D, agg, ln)], _goto(T))
                            blk['t'] = _goto(nb)
                            return True
                return False           # a std function passed by name: leave the call as it is
        call = _emit_fn_value_call(facts, d, norm, fop, ops, D, T, ln, depth)
        if call is None:
            return undo()
        blk['t'] = _goto(call)
        return True
    if kind.startswith('opt_') or kind.startswith('res_'):
        adt, variants = (OPT, OPT_VARIANTS) if kind.startswith('opt_') else (RES, RES_VARIANTS)
        o = _as_local(d, blk, args[0], ln)
        if kind == 'opt_zip':
            o2 = _as_local(d, blk, args[1], ln)
            none_b = set_dest_block(_agg(OPT, 'None', []))
            both = set_dest_block(_agg(OPT, 'Some', [{'k': 'move', 'pl': None}]))   # placeholder, fixed below
            tup = _new_local(d, '(?, ?)')
            d['blocks'][both]['st'] = [
                _assign(_pl(tup), {'k': 'agg', 'ak': 'tuple', 'ops': [{'k': 'move', 'pl': _payload(o, OPT, 'Some')},
                                                                        {'k': 'move', 'pl': _payload(o2, OPT, 'Some')}]}, ln),
                _assign(D, _agg(OPT, 'Some', [_mv(tup)]), ln)]
            second = _new_block(d, [], {'k': 'unreachable'})
            _switch_variant(d, d['blocks'][second], o2, OPT, OPT_VARIANTS, {'None': none_b, 'Some': both}, ln)
            _switch_variant(d, blk, o, OPT, OPT_VARIANTS, {'None': none_b, 'Some': second}, ln)
            return True
        some_name, none_name = ('Some', 'None') if adt == OPT else ('Ok', 'Err')
        payload_some = {'k': 'move', 'pl': _payload(o, adt, some_name)}
        if kind in ('opt_map', 'res_map'):
            res = _new_local(d, '?')
            wrap = set_dest_block(_agg(adt, some_name, [_mv(res)]))
            call = _emit_fn_value_call(facts, d, norm, args[1], [payload_some], _pl(res), wrap, ln, depth)
            if call is None:
                return undo()
            if adt == OPT:
                other = set_dest_block(_agg(OPT, 'None', []))
            else:
                other = set_dest_block(_agg(RES, 'Err', [{'k': 'move', 'pl': _payload(o, RES, 'Err')}]))
            _switch_variant(d, blk, o, adt, variants, {some_name: call, none_name: other}, ln)
            return True
        if kind in ('opt_and_then', 'res_and_then'):
            call = _emit_fn_value_call(facts, d, norm, args[1], [payload_some], D, T, ln, depth)
            if call is None:
                return undo()
            if adt == OPT:
                other = set_dest_block(_agg(OPT, 'None', []))
            else:
                other = set_dest_block(_agg(RES, 'Err', [{'k': 'move', 'pl': _payload(o, RES, 'Err')}]))
            _switch_variant(d, blk, o, adt, variants, {some_name: call, none_name: other}, ln)
            return True
        if kind == 'res_map_err':
            res = _new_local(d, '?')
            wrap = set_dest_block(_agg(RES, 'Err', [_mv(res)]))
            call = _emit_fn_value_call(facts, d, norm, args[1], [{'k': 'move', 'pl': _payload(o, RES, 'Err')}],
                                       _pl(res), wrap, ln, depth)
            if call is None:
                return undo()
            okb = set_dest_block(_agg(RES, 'Ok', [payload_some]))
            _switch_variant(d, blk, o, RES, RES_VARIANTS, {'Ok': okb, 'Err': call}, ln)
            return True
        if kind == 'opt_filter':
            flag = _new_local(d, 'bool')
            keep = set_dest_block(_agg(OPT, 'Some', [payload_some]))
            drop = set_dest_block(_agg(OPT, 'None', []))
            test = _new_block(d, [], {'k': 'switch', 'discr': _mv(flag), 'ty': 'bool', 'targets': [['0', drop]],
                                      'otherwise': keep, 'ln': ln, 'x': False})
            r = _new_local(d, '&?')
            call = _emit_fn_value_call(facts, d, norm, args[1], [_mv(r)], _pl(flag), test, ln, depth)
            if call is None:
                return undo()
            pre = _new_block(d, [_assign(_pl(r), {'k': 'ref', 'mut': False, 'pl': _payload(o, OPT, 'Some')}, ln)],
                             _goto(call))
            none_b = set_dest_block(_agg(OPT, 'None', []))
            _switch_variant(d, blk, o, OPT, OPT_VARIANTS, {'Some': pre, 'None': none_b}, ln)
            return True
        if kind == 'opt_unwrap_or_else':
            call = _emit_fn_value_call(facts, d, norm, args[1], [], D, T, ln, depth)
            if call is None:
                return undo()
            someb = set_dest_block({'k': 'use', 'op': payload_some})
            _switch_variant(d, blk, o, OPT, OPT_VARIANTS, {'Some': someb, 'None': call}, ln)
            return True
        if kind == 'opt_or_else':
            call = _emit_fn_value_call(facts, d, norm, args[1], [], D, T, ln, depth)
            if call is None:
                return undo()
            someb = set_dest_block(_agg(OPT, 'Some', [payload_some]))
            _switch_variant(d, blk, o, OPT, OPT_VARIANTS, {'Some': someb, 'None': call}, ln)
            return True
        if kind == 'opt_map_or':
            call = _emit_fn_value_call(facts, d, norm, args[2], [payload_some], D, T, ln, depth)
            if call is None:
                return undo()
            noneb = set_dest_block({'k': 'use', 'op': args[1]})
            _switch_variant(d, blk, o, OPT, OPT_VARIANTS, {'Some': call, 'None': noneb}, ln)
            return True
        if kind in ('opt_map_or_else', 'res_map_or_else'):
            # map_or_else(default_fn, f): f(payload) on Some / Ok, default_fn() (default_fn(err)) otherwise
            call = _emit_fn_value_call(facts, d, norm, args[2], [payload_some], D, T, ln, depth)
            if call is None:
                return undo()
            dargs = [] if adt == OPT else [{'k': 'move', 'pl': _payload(o, RES, 'Err')}]
            dflt = _emit_fn_value_call(facts, d, norm, args[1], dargs, D, T, ln, depth)
            if dflt is None:
                return undo()
            _switch_variant(d, blk, o, adt, variants, {some_name: call, none_name: dflt}, ln)
            return True
        if kind == 'res_map_or':
            call = _emit_fn_value_call(facts, d, norm, args[2], [payload_some], D, T, ln, depth)
            if call is None:
                return undo()
            noneb = set_dest_block({'k': 'use', 'op': args[1]})
            _switch_variant(d, blk, o, RES, RES_VARIANTS, {'Ok': call, 'Err': noneb}, ln)
            return True
        if kind == 'res_unwrap_or_else':
            call = _emit_fn_value_call(facts, d, norm, args[1], [{'k': 'move', 'pl': _payload(o, RES, 'Err')}], D, T, ln,
                                       depth)
            if call is None:
                return undo()
            okb = set_dest_block({'k': 'use', 'op': payload_some})
            _switch_variant(d, blk, o, RES, RES_VARIANTS, {'Ok': okb, 'Err': call}, ln)
            return True
        if kind == 'res_or_else':
            call = _emit_fn_value_call(facts, d, norm, args[1], [{'k': 'move', 'pl': _payload(o, RES, 'Err')}], D, T, ln,
                                       depth)
            if call is None:
                return undo()
            okb = set_dest_block(_agg(RES, 'Ok', [payload_some]))
            _switch_variant(d, blk, o, RES, RES_VARIANTS, {'Ok': okb, 'Err': call}, ln)
            return True
        if kind == 'opt_is_some_and':
            call = _emit_fn_value_call(facts, d, norm, args[1], [payload_some], D, T, ln, depth)
            if call is None:
                return undo()
            noneb = set_dest_block({'k': 'use', 'op': {'k': 'const', 'c': {'ty': 'bool', 'v': False}}})
            _switch_variant(d, blk, o, OPT, OPT_VARIANTS, {'Some': call, 'None': noneb}, ln)
            return True
        if kind == 'opt_ok_or_else':
            res = _new_local(d, '?')
            wrap = set_dest_block(_agg(RES, 'Err', [_mv(res)]))
            call = _emit_fn_value_call(facts, d, norm, args[1], [], _pl(res), wrap, ln, depth)
            if call is None:
                return undo()
            someb = set_dest_block(_agg(RES, 'Ok', [payload_some]))
            _switch_variant(d, blk, o, OPT, OPT_VARIANTS, {'Some': someb, 'None': call}, ln)
            return True
        return undo()
    if kind in ('bool_then', 'bool_then_some'):
        cond = _as_local(d, blk, args[0], ln, 'bool')
        none_b = set_dest_block(_agg(OPT, 'None', []))
        if kind == 'bool_then':
            res = _new_local(d, '?')
            wrap = set_dest_block(_agg(OPT, 'Some', [_mv(res)]))
            call = _emit_fn_value_call(facts, d, norm, args[1], [], _pl(res), wrap, ln, depth)
            if call is None:
                return undo()
            yes = call
        else:
            yes = set_dest_block(_agg(OPT, 'Some', [args[1]]))
        blk['t'] = {'k': 'switch', 'discr': {'k': 'copy', 'pl': _pl(cond)}, 'ty': 'bool', 'targets': [['0', none_b]],
                    'otherwise': yes, 'ln': ln, 'x': False}
        return True
    return False


def forward_refs(d):
    """`r = &mut P; .. (*r).f = v ..` -> `P.f = v` (and reads alike) for reference locals with exactly one definition
    whose target P is a stable place (derefs / fields / downcasts only). A helper that takes `&mut self.field` and
    writes through it then reads — once spliced into its caller — like the direct field write it is, for every rule
    (restore analysis, who-may-write, expression builder). While `r` is live the borrow checker guarantees that P is
    not otherwise written, so the rewrite does not change which location is meant."""
    ndefs = {}
    defs = {}
    for blk in d['blocks']:
        for s in blk['st']:
            if s['k'] == 'assign' and not s['lhs']['p']:
                l = s['lhs']['l']
                ndefs[l] = ndefs.get(l, 0) + 1
                defs[l] = s['rv']
        t = blk['t']
        if t['k'] == 'call' and not t['dest']['p']:
            ndefs[t['dest']['l']] = ndefs.get(t['dest']['l'], 0) + 1
            defs[t['dest']['l']] = None
    nargs = d.get('nargs', 0)

    def stable(pl):
        return all(p == '*' or (isinstance(p, dict) and ('n' in p or 'dc' in p or ('f' in p and 'idx' not in p)))
                   for p in pl['p'])
    target = {}

    def resolve(l, depth=0):
        if l in target:
            return target[l]
        if depth > 6 or ndefs.get(l, 0) != 1 or l <= nargs or defs.get(l) is None:
            return None
        rv = defs[l]
        r = None
        if rv['k'] == 'ref' and stable(rv['pl']):
            base = rv['pl']
            if base['p'] and base['p'][0] == '*':
                inner = resolve(base['l'], depth + 1)
                if inner is not None:
                    r = {'l': inner['l'], 'p': list(inner['p']) + list(base['p'][1:])}
            if r is None:
                # a place rooted in a parameter / a plain local: stable when the root itself is never re-assigned
                if base['l'] <= nargs or ndefs.get(base['l'], 0) <= 1:
                    r = {'l': base['l'], 'p': list(base['p'])}
        elif rv['k'] == 'use' and rv['op']['k'] in ('move', 'copy') and not rv['op']['pl']['p']:
            r = resolve(rv['op']['pl']['l'], depth + 1)
        elif rv['k'] == 'cast' and 'Pointer' in rv.get('ck', '') and isinstance(rv.get('op'), dict) and \
                rv['op']['k'] in ('move', 'copy') and not rv['op']['pl']['p'] and 'Unsize' not in rv.get('ck', ''):
            r = resolve(rv['op']['pl']['l'], depth + 1)
        if r is not None:
            target[l] = r
        return r
    n = 0

    def rewrite(v):
        nonlocal n
        if isinstance(v, list):
            for x in v:
                rewrite(x)
            return
        if not isinstance(v, dict):
            return
        if 'l' in v and 'p' in v and isinstance(v['l'], int) and isinstance(v['p'], list):
            if v['p'] and v['p'][0] == '*' and len(v['p']) > 1:
                r = resolve(v['l'])
                if r is not None and not (r['l'] == v['l']):
                    v['p'] = copy.deepcopy(r['p']) + v['p'][1:]
                    v['l'] = r['l']
                    n += 1
            return
        for x in v.values():
            rewrite(x)
    for blk in d['blocks']:
        for s in blk['st']:
            if s['k'] == 'assign':
                # whole-target writes `*r = v` as well as field writes
                lhs = s['lhs']
                if lhs['p'] and lhs['p'][0] == '*':
                    r = resolve(lhs['l'])
                    if r is not None and r['l'] != lhs['l']:
                        lhs['p'] = copy.deepcopy(r['p']) + lhs['p'][1:]
                        lhs['l'] = r['l']
                        n += 1
                rewrite(s['rv'])
        t = blk['t']
        for key in ('args', 'discr', 'pl'):
            if key in t:
                rewrite(t[key])
    if n:
        d['forwarded_refs'] = n
    return d


def flags_as_set(d, norm):
    """a dense set of indices kept as one flag per index (`Vec<bool>` / `[bool; N]`) reads like the hash set it stands
    for:  `flags[i]` (a read of the flag)  ->  HashSet::contains(&flags, i);   `flags[i] = true`  ->  HashSet::insert(
    &mut flags, i);  `flags[i] = false`  ->  HashSet::remove.  Only the callee of the Index / IndexMut call is renamed -
    operands, destinations and control flow stay as they are - so every rule that speaks about membership tests and
    insertions applies to both representations."""
    n = 0
    for bi, blk in enumerate(d['blocks']):
        t = blk['t']
        if t['k'] != 'call' or blk.get('cleanup') or t['f'].get('k') != 'const':
            continue
        c = t['f'].get('c', {})
        fn = norm(c.get('fn', '')) if c.get('fn') else ''
        if fn not in ('std::ops::Index::index', 'std::ops::IndexMut::index_mut') or len(t['args']) != 2:
            continue
        a0 = t['args'][0]
        if a0.get('k') not in ('copy', 'move') or a0['pl']['p']:
            continue
        rty = d['locals'][a0['pl']['l']].replace(' ', '')
        if not (('Vec<bool>' in rty or '[bool;' in rty or '[bool]' in rty) and t['dest'] and not t['dest']['p']):
            continue
        dty = d['locals'][t['dest']['l']].replace(' ', '')
        if fn.endswith('index') and dty == '&bool':
            new = 'contains'
        elif fn.endswith('index_mut') and dty == '&mutbool' and t.get('target') is not None:
            val = None
            dl = t['dest']['l']
            for st in d['blocks'][t['target']]['st']:
                if st['k'] == 'assign' and st['lhs']['l'] == dl and st['lhs']['p'] == ['*'] and st['rv']['k'] == 'use' and \
                        st['rv']['op'].get('k') == 'const':
                    val = st['rv']['op']['c'].get('v')
            if val is True:
                new = 'insert'
            elif val is False:
                new = 'remove'
            else:
                continue
        else:
            continue
        t['f'] = {'k': 'const', 'c': {'ty': c.get('ty', ''), 'fn': 'std::collections::HashSet::<T, S, A>::' + new,
                                     'ga': [], 'impl_self': 'std::collections::HashSet<T, S, A>', 'flagvec': True}}
        n += 1
    if n:
        d['flags_as_set'] = n
    return d


def erase_newtypes(facts, d, norm):
    """private single-field wrapper structs that are new on this tree (`struct TrackIdSequence(u64)`,
    `struct FixedWeight(i64)`, `struct ShardId(usize)`) are transparent: building one is a move of the wrapped value,
    projecting its field is the value itself, its type reads as the wrapped type.  Their (new) methods and
    conversions are spliced in by the inliner, so a counter kept in a newtype is the counter."""
    nts = getattr(facts, 'new_newtypes', None)
    if not nts:
        return d
    n = [0]

    def is_nt(adt):
        return bool(adt) and norm(adt) in nts

    def fix_place(pl):
        p = pl.get('p')
        if isinstance(p, list) and any(isinstance(e, dict) and is_nt(e.get('adt')) for e in p):
            pl['p'] = [e for e in p if not (isinstance(e, dict) and is_nt(e.get('adt')))]
            n[0] += 1

    def walk(x):
        if isinstance(x, dict):
            if 'l' in x and isinstance(x.get('p'), list):
                fix_place(x)
            for v in x.values():
                walk(v)
        elif isinstance(x, list):
            for v in x:
                walk(v)

    for blk in d['blocks']:
        for st in blk['st']:
            if st.get('k') == 'assign':
                rv = st['rv']
                if rv.get('k') == 'agg' and rv.get('ak') == 'adt' and is_nt(rv.get('adt')) and len(rv.get('ops', [])) == 1:
                    st['rv'] = {'k': 'use', 'op': rv['ops'][0]}
                    n[0] += 1
        walk(blk['st'])
        walk(blk['t'])
    if n[0]:
        import re as _re
        for i_, ty in enumerate(d['locals']):
            for p_, inner in nts.items():
                leaf = p_
                if leaf in ty:
                    d['locals'][i_] = ty = _re.sub(_re.escape(leaf) + r'(<[^<>]*>)?', inner, ty)
        d['erased_newtypes'] = n[0]
    return d


def prepare_body(facts, d, norm, depth=0):
    """all normalisations of one body dict: std combinators desugared, new private helpers inlined"""
    if d['kind'] not in ('Fn', 'AssocFn', 'Closure'):
        return erase_newtypes(facts, d, norm)
    d = flags_as_set(d, norm)
    d = desugar_combinators(facts, d, norm, depth)
    n0 = len(d.get('inlined', []))
    d = inline_new_helpers(facts, d, norm, depth)
    if len(d.get('inlined', [])) != n0:
        d = desugar_combinators(facts, d, norm, depth)
        # writes through `&mut field` parameters of spliced helpers become direct field writes
        d = forward_refs(d)
    d = erase_newtypes(facts, d, norm)
    return d
