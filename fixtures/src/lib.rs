//! Miniature positive / negative controls for the rule primitives. Analysed by simlint on every run; each primitive
//! must fire on the broken variant and stay silent on the correct twin, otherwise the machinery is reported broken.
#![allow(dead_code, clippy::all)]

pub trait Callback {
    fn apply(&self, v: &mut Vec<u32>) -> Result<(), String>;
}

pub trait Notifier {
    fn send(&mut self, id: u64);
}

#[derive(Clone, Default)]
pub struct Payload(pub Vec<u32>);

pub struct Thing<N: Notifier> {
    pub attributes: Vec<u32>,
    pub observations: Vec<u32>,
    pub history: Vec<u64>,
    pub id: u64,
    pub notifier: N,
}

impl<N: Notifier> Thing<N> {
    /// P6 correct: snapshot before the callback, restore on error, notify once on success
    pub fn update_good(&mut self, cb: &dyn Callback) -> Result<(), String> {
        let last = self.attributes.clone();
        let res = cb.apply(&mut self.attributes);
        if res.is_err() {
            self.attributes = last;
            res?;
            unreachable!();
        }
        self.notifier.send(self.id);
        Ok(())
    }

    /// P6 broken: observations are modified and not restored on the error path; notification precedes the check
    pub fn update_bad(&mut self, cb: &dyn Callback) -> Result<(), String> {
        let last = self.attributes.clone();
        self.observations.push(1);
        let res = cb.apply(&mut self.attributes);
        self.notifier.send(self.id);
        if res.is_err() {
            self.attributes = last;
            res?;
            unreachable!();
        }
        Ok(())
    }

    /// P6 broken: the snapshot is taken after the field was already modified
    pub fn update_late_snapshot(&mut self, cb: &dyn Callback) -> Result<(), String> {
        self.attributes.push(7);
        let last = self.attributes.clone();
        let res = cb.apply(&mut self.attributes);
        if res.is_err() {
            self.attributes = last;
            return res;
        }
        Ok(())
    }

    fn rollback(&mut self, a: Vec<u32>) {
        self.attributes = a;
    }

    /// P6 correct through a rollback helper
    pub fn update_helper(&mut self, cb: &dyn Callback) -> Result<(), String> {
        let last = self.attributes.clone();
        if let Err(e) = cb.apply(&mut self.attributes) {
            self.rollback(last);
            return Err(e);
        }
        Ok(())
    }
}

pub struct Store {
    pub items: Vec<Payload>,
}

impl Store {
    pub fn add(&mut self, p: Payload) {
        self.items.push(p);
    }

    /// P7 correct: every fetched payload is re-added
    pub fn move_all_good(&mut self, other: &mut Store) {
        let fetched = std::mem::take(&mut other.items);
        for p in fetched {
            self.add(p);
        }
    }

    /// P7 broken: payloads failing a test are silently destroyed
    pub fn move_all_bad(&mut self, other: &mut Store) {
        let fetched = std::mem::take(&mut other.items);
        for p in fetched {
            if p.0.len() > 1 {
                self.add(p);
            }
        }
    }
}

/// P2/P5: conjunction (both conditions necessary) vs disjunction (neither necessary)
pub fn both(a: u32, b: u32, lim: u32) -> bool {
    a >= lim && b <= lim
}

pub fn either(a: u32, b: u32, lim: u32) -> bool {
    a >= lim || b <= lim
}

/// P3 comparator direction
pub fn sort_desc(v: &mut Vec<(u64, f32)>) {
    v.sort_by(|l, r| r.1.partial_cmp(&l.1).unwrap());
}

pub fn sort_asc(v: &mut Vec<(u64, f32)>) {
    v.sort_by(|l, r| l.1.partial_cmp(&r.1).unwrap());
}

/// P4 counting: exactly once vs conditionally
pub fn notify_once<N: Notifier>(n: &mut N, flag: bool) -> u32 {
    let r = if flag { 1 } else { 2 };
    n.send(r as u64);
    r
}

pub fn notify_maybe<N: Notifier>(n: &mut N, flag: bool) -> u32 {
    if flag {
        n.send(1);
    }
    3
}

/// flow sensitivity of expression building: `first` must resolve to the value read before the overwrite
pub struct Pair {
    pub key: u64,
    pub winner: u64,
}

pub fn read_before_overwrite(p: &mut Pair, set: &mut std::collections::HashSet<u64>) {
    let winner = p.winner;
    if set.contains(&winner) {
        p.winner = p.key;
    } else {
        set.insert(winner);
    }
}

/// who-may-write (field_mutators): `table` is written by `Owner::add` (push through &mut), by `Owner::patch`
/// (index assignment) and inside a closure of `Owner::drain_some`; `Owner::peek` only reads.
pub struct Owner {
    pub table: Vec<(usize, f32)>,
    pub other: u32,
}

impl Owner {
    pub fn add(&mut self, k: usize, v: f32) {
        self.table.push((k, v));
    }
    pub fn patch(&mut self, i: usize, v: f32) {
        self.table[i].1 = v;
    }
    pub fn drain_some(&mut self, ks: &[usize]) {
        ks.iter().for_each(|k| self.table.retain(|(d, _)| d != k));
    }
    pub fn peek(&self) -> usize {
        self.other as usize + self.table.len()
    }
    pub fn bump(&mut self) {
        self.other += 1;
    }
}

/// sequencing (alternatives through phi): `step_good` predicts on both arms, `step_bad` skips it on one
pub struct Filt;
impl Filt {
    pub fn initiate(&self, x: f32) -> f32 { x }
    pub fn predict(&self, s: f32) -> f32 { s + 1.0 }
    pub fn update(&self, s: f32, x: f32) -> f32 { (s + x) / 2.0 }
}

pub fn step_good(f: &Filt, st: Option<f32>, x: f32) -> f32 {
    let cur = if let Some(s) = st { s } else { f.initiate(x) };
    let p = f.predict(cur);
    f.update(p, x)
}

pub fn step_bad(f: &Filt, st: Option<f32>, x: f32) -> f32 {
    let p = match st {
        Some(s) => f.predict(s),
        None => f.initiate(x),
    };
    f.update(p, x)
}

/// inliner control: `radius_via_helper` must look like `radius_inline` once `radius_helper_sq` is treated as new
pub struct Bx {
    pub aspect: f32,
    pub height: f32,
}

pub fn radius_inline(b: &Bx) -> f32 {
    let hw = b.aspect * b.height / 2.0;
    let hh = b.height / 2.0;
    (hw * hw + hh * hh).sqrt()
}

fn radius_helper_sq(b: &Bx) -> f32 {
    let hw = b.aspect * b.height / 2.0;
    let hh = b.height / 2.0;
    hw * hw + hh * hh
}

pub fn radius_via_helper(b: &Bx) -> f32 {
    radius_helper_sq(b).sqrt()
}
