#!/usr/bin/env python3
"""tools/factsof.py <patch> — prints the path of the (cached) fact file of /repo HEAD + patch (debugging aid)"""
import os
import shutil
import sys
V = os.path.dirname(os.path.dirname(os.path.abspath(__file__)))
sys.path.insert(0, os.path.join(V, 'rules'))
os.environ.setdefault('SCRATCH_FROM_HEAD', '1')
import extract  # noqa: E402
import scratch  # noqa: E402
d = scratch.make_copy()
try:
    ok, err = scratch.apply_patch(d, os.path.abspath(sys.argv[1]))
    assert ok, err
    p, info = extract.facts_for(repo=d, cfg='default', target_dir=os.path.join(extract.BUILD, 'target-scratch-default'), quiet=True)
    print(p)
finally:
    shutil.rmtree(d, ignore_errors=True)
