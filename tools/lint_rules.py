#!/usr/bin/env python3
"""tools/lint_rules.py — undefined-name check of the rule library with function scopes (a rarely taken branch must not
crash on a NameError; engine.run_module would turn that into a fail-closed RULE-CRASH finding)"""
import ast, builtins, glob, os, sys
V = os.path.dirname(os.path.dirname(os.path.abspath(__file__)))
BUILT = set(dir(builtins)) | {'__file__', '__name__', '__doc__'}


def bound_here(node):
    """names bound directly in the scope of `node` (not inside nested function / class scopes, except their names)"""
    out = set()

    def visit(n, top):
        for c in ast.iter_child_nodes(n):
            if isinstance(c, (ast.FunctionDef, ast.AsyncFunctionDef, ast.ClassDef)):
                out.add(c.name)
                continue
            if isinstance(c, ast.Lambda):
                continue
            if isinstance(c, (ast.Import, ast.ImportFrom)):
                for a in c.names:
                    out.add((a.asname or a.name).split('.')[0])
            elif isinstance(c, ast.Name) and isinstance(c.ctx, (ast.Store, ast.Del)):
                out.add(c.id)
            elif isinstance(c, ast.ExceptHandler) and c.name:
                out.add(c.name)
            elif isinstance(c, (ast.Global, ast.Nonlocal)):
                out.update(c.names)
            elif isinstance(c, ast.comprehension):
                pass
            visit(c, False)
    visit(node, True)
    if isinstance(node, (ast.FunctionDef, ast.AsyncFunctionDef, ast.Lambda)):
        a = node.args
        for x in a.args + a.kwonlyargs + getattr(a, 'posonlyargs', []):
            out.add(x.arg)
        if a.vararg:
            out.add(a.vararg.arg)
        if a.kwarg:
            out.add(a.kwarg.arg)
    return out


bad = 0


def check(node, scopes, fname):
    global bad
    mine = bound_here(node)
    scopes = scopes + [mine]

    def visit(n):
        global bad
        for c in ast.iter_child_nodes(n):
            if isinstance(c, (ast.FunctionDef, ast.AsyncFunctionDef, ast.Lambda)):
                # defaults / decorators are evaluated in the enclosing scope
                check(c, scopes, fname)
                continue
            if isinstance(c, ast.ClassDef):
                check(c, scopes, fname)
                continue
            if isinstance(c, ast.Name) and isinstance(c.ctx, ast.Load):
                if not any(c.id in s for s in scopes) and c.id not in BUILT:
                    print('%s:%d undefined name %s' % (fname, c.lineno, c.id))
                    bad += 1
            visit(c)
    visit(node)


for f in sorted(glob.glob(V + '/rules/*.py') + glob.glob(V + '/rules/props/*.py')):
    t = ast.parse(open(f).read())
    check(t, [], os.path.relpath(f, V))
sys.exit(1 if bad else 0)
