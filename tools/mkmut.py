#!/usr/bin/env python3
"""mkmut.py <name> <file> <<< python-literal list of (old,new[,count]) — creates /verif/mutants/<name>.patch from /repo"""
import sys, subprocess, ast
name, path = sys.argv[1], sys.argv[2]
edits = ast.literal_eval(sys.stdin.read())
p = '/repo/' + path
s = open(p).read()
for e in edits:
    old, new = e[0], e[1]
    cnt = e[2] if len(e) > 2 else 1
    if s.count(old) < 1:
        print('NOT FOUND:', old[:60]); sys.exit(1)
    if cnt == 1 and s.count(old) != 1:
        print('AMBIGUOUS (%d):' % s.count(old), old[:60]); sys.exit(1)
    s = s.replace(old, new) if cnt == 0 else s.replace(old, new, cnt)
open(p, 'w').write(s)
d = subprocess.run(['git', '-C', '/repo', 'diff'], capture_output=True, text=True).stdout
open('/verif/mutants/%s.patch' % name, 'w').write(d)
subprocess.run(['git', '-C', '/repo', 'checkout', '--', '.'])
print('wrote', name, len(d.splitlines()), 'lines')
