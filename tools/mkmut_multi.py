#!/usr/bin/env python3
"""mkmut_multi.py <name> <<< python-literal {file: [(old,new[,count]), ...]} — multi-file variant of mkmut.py"""
import sys, subprocess, ast
name = sys.argv[1]
spec = ast.literal_eval(sys.stdin.read())
for path, edits in spec.items():
    p = '/repo/' + path
    s = open(p).read()
    for e in edits:
        old, new = e[0], e[1]
        cnt = e[2] if len(e) > 2 else 1
        if s.count(old) < 1:
            print('NOT FOUND in', path, ':', old[:70]); subprocess.run(['git', '-C', '/repo', 'checkout', '--', '.']); sys.exit(1)
        if cnt == 1 and s.count(old) != 1:
            print('AMBIGUOUS (%d) in %s:' % (s.count(old), path), old[:70]); subprocess.run(['git', '-C', '/repo', 'checkout', '--', '.']); sys.exit(1)
        s = s.replace(old, new) if cnt == 0 else s.replace(old, new, cnt)
    open(p, 'w').write(s)
d = subprocess.run(['git', '-C', '/repo', 'diff'], capture_output=True, text=True).stdout
open('/verif/mutants/%s.patch' % name, 'w').write(d)
subprocess.run(['git', '-C', '/repo', 'checkout', '--', '.'])
print('wrote', name, len(d.splitlines()), 'lines')
