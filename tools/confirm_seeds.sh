#!/bin/bash
# confirm_seeds.sh <PROP> [<PROP>...] : for each /tmp/seed/<PROP>/OUT/patch<k>.diff + demo<k>.rs confirm in a scratch worktree:
#   clean: demo passes; patched: 81 lib tests pass, demo fails.  Writes /verif/seeded/<PROP>-<k>/{patch.diff,demo.rs,meta.json}
set -u
WT=/tmp/confirm/wt
export CARGO_TARGET_DIR=/tmp/confirm/target CARGO_NET_OFFLINE=true
mkdir -p /tmp/confirm
if [ ! -d $WT ]; then git -C /repo worktree add -q --detach $WT HEAD || exit 2; fi
cd $WT && git checkout -q --detach $(git -C /repo rev-parse HEAD) && git checkout -q -- . && rm -f tests/demo*.rs
for P in "$@"; do
 for k in ${SEED_KS:-1 2 3 4}; do
  patch=${SEED_ROOT:-/tmp/seed}/$P/OUT/patch$k.diff; demo=${SEED_ROOT:-/tmp/seed}/$P/OUT/demo$k.rs
  [ -f $patch ] && [ -f $demo ] || continue
  out=/verif/seeded/$P${SEED_SUFFIX:-}-$k; mkdir -p $out
  git checkout -q -- . ; rm -rf tests; mkdir -p tests; cp $demo tests/seed_demo.rs
  clean_demo=$(timeout 1200 cargo test --offline --test seed_demo 2>&1 | grep -E "^test result|error(\[|:)" | head -3 | tr '\n' ' ')
  if ! git apply --check $patch 2>/dev/null; then echo "$P-$k PATCH-DOES-NOT-APPLY"; continue; fi
  git apply $patch
  lib=""
  for attempt in 1 2 3 4 5; do
    lib=$(timeout 1800 cargo test --offline --lib 2>&1 | grep -E "^test result|^test .* FAILED|error(\[|:)" | head -4 | tr '\n' ' ')
    case "$lib" in *"81 passed; 0 failed"*) break;; esac
    # the only tolerated retries are the two wall-clock store tests (flaky under load on the unchanged tree as well)
    case "$lib" in *general_ops*|*baked_similarity*) sleep 2;; *) break;; esac
  done
  mut_demo=$(timeout 1200 cargo test --offline --test seed_demo 2>&1 | grep -E "^test result|error(\[|:)" | head -3 | tr '\n' ' ')
  git checkout -q -- .
  cp $patch $out/patch.diff; cp $demo $out/demo.rs; [ -f ${SEED_ROOT:-/tmp/seed}/$P/OUT/NOTES.md ] && cp ${SEED_ROOT:-/tmp/seed}/$P/OUT/NOTES.md $out/NOTES.seed-agent.md
  python3 - "$P" "$k" "$clean_demo" "$lib" "$mut_demo" "$out" <<'PY'
import sys, json, re
P,k,clean,lib,mut,out=sys.argv[1:7]
def ok(s): return 'test result: ok' in s and 'FAILED' not in s
conf = ok(clean) and ('81 passed' in lib and '0 failed' in lib) and ('FAILED' in mut or 'failed' in mut and 'test result: ok' not in mut)
meta={'property':P,'variant':int(k),'confirmed':bool(conf),
 'ran':{'clean_tree_demo':clean.strip(),'patched_lib_tests':lib.strip(),'patched_demo':mut.strip()},
 'commands':['cargo test --offline --test seed_demo (clean HEAD)','git apply patch.diff','cargo test --offline --lib','cargo test --offline --test seed_demo','git checkout -- .'],
 'needs':'see NOTES.seed-agent.md entry for patch%s'%k}
json.dump(meta,open(out+'/meta.json','w'),indent=1)
print(P+'-'+k, 'CONFIRMED' if conf else 'NOT-CONFIRMED', '| clean:',clean.strip(),'| lib:',lib.strip(),'| patched demo:',mut.strip())
PY
 done
done
rm -rf $WT/tests
