#!/usr/bin/env python3
"""tools/dbg.py <patch> <body regex> [--raw] — dump the (normalised) MIR of matching bodies of /repo HEAD + patch"""
import os, sys, shutil
V = os.path.dirname(os.path.dirname(os.path.abspath(__file__)))
sys.path.insert(0, os.path.join(V, 'rules'))
os.environ.setdefault('SCRATCH_FROM_HEAD', '1')
import scratch, extract, mir, anchors
d = scratch.make_copy()
try:
    ok, err = scratch.apply_patch(d, os.path.abspath(sys.argv[1])); assert ok, err
    p, info = extract.facts_for(repo=d, cfg='default', target_dir=os.path.join(extract.BUILD, 'target-scratch-default-m'), quiet=True)
finally:
    shutil.rmtree(d, ignore_errors=True)
F = mir.Facts(p, baseline=False) if '--raw' in sys.argv else mir.Facts(p)
anchors.resolve_all(F)
for b in F.search(sys.argv[2]):
    print('##', b.npath, {k: b.d.get(k) for k in ('inlined', 'desugared', 'devirtualised', 'erased_newtypes', 'flags_as_set') if b.d.get(k)})
    b.dump()
