#!/usr/bin/env python3
"""Enriches seeded/<id>/meta.json (site, change, what it needs to manifest, which rules report it) from
seeded/DESCRIPTIONS.json and mutants/CORPUS.json, and regenerates the seed table of DESIGN.md (between the
SEED-TABLE markers)."""
import json
import os
import re

V = os.path.dirname(os.path.dirname(os.path.abspath(__file__)))
D = json.load(open(os.path.join(V, 'seeded', 'DESCRIPTIONS.json')))
C = json.load(open(os.path.join(V, 'mutants', 'CORPUS.json')))


def corpus_key(sid):
    m = re.match(r'^(C\d\d)-(?:r(\d)-)?(\d)$', sid)
    return ('seed%s-' % m.group(2) if m.group(2) else 'seed-') + m.group(1) + '-' + m.group(3)


rows = []
for sid in sorted(os.listdir(os.path.join(V, 'seeded'))):
    p = os.path.join(V, 'seeded', sid, 'meta.json')
    if not os.path.exists(p):
        continue
    meta = json.load(open(p))
    d = D.get(sid, {})
    ck = corpus_key(sid)
    det = (C.get(ck) or {}).get('detected_by')
    meta['breaks_property'] = meta.get('property')
    meta['site'] = d.get('site')
    meta['change'] = d.get('change')
    meta['needs_to_manifest'] = d.get('needs')
    meta['corpus_variant'] = 'mutants/%s.patch' % ck
    meta['detected_by'] = det
    if d.get('outside'):
        meta['outside_claimed_clauses'] = d['outside']
    json.dump(meta, open(p, 'w'), indent=1)
    own = meta.get('property')
    if det is None:
        cell = '(not measured)'
    elif not det:
        cell = '**missed** — ' + (d.get('outside') or 'see §11 notes')
    else:
        parts = []
        for k in sorted(det, key=lambda k: (k != own, k)):
            parts.append('%s: %s' % (k, ', '.join(det[k])))
        cell = '; '.join(parts)
        if own not in det:
            cell = '(own check silent) ' + cell
    meta['detected_by_own_property_check'] = bool(det and own in det)
    rows.append('| %s | %s | %s | %s | %s |' % (sid, d.get('site', '?'), d.get('change', '?'), d.get('needs', '?'), cell))

table = ['| seed | site | change | needs, to manifest | reported by |', '|---|---|---|---|---|'] + rows
dp = os.path.join(V, 'DESIGN.md')
s = open(dp).read()
a, b = '<!-- SEED-TABLE-BEGIN -->', '<!-- SEED-TABLE-END -->'
if a in s:
    s = s[:s.index(a) + len(a)] + '\n' + '\n'.join(table) + '\n' + s[s.index(b):]
    open(dp, 'w').write(s)
print(sum(1 for r in rows if 'own check silent' in r), 'detected only by another property\'s check;')
print(len(rows), 'seeds;', sum(1 for r in rows if '**missed**' in r), 'missed;',
      sum(1 for r in rows if 'not measured' in r), 'not measured')
