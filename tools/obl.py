#!/usr/bin/env python3
"""tools/obl.py <patch|-> <PROP> <RULE> - list the obligations of one rule on HEAD (+ patch); corpus maintenance aid"""
import os, sys, shutil
V = os.path.dirname(os.path.dirname(os.path.abspath(__file__)))
sys.path.insert(0, os.path.join(V, 'rules'))
os.environ.setdefault('SCRATCH_FROM_HEAD', '1')
import scratch
d = scratch.make_copy()
try:
    if sys.argv[1] != '-':
        ok, err = scratch.apply_patch(d, os.path.abspath(sys.argv[1])); assert ok, err
    F, info = scratch.facts_of(d)
finally:
    shutil.rmtree(d, ignore_errors=True)
ctx, unk = scratch.run_rules(F, sys.argv[2])
for o in ctx.obligations:
    if o['rule'] == sys.argv[3]:
        print(o.get('verdict'), o.get('def_path', '')[-50:], '|', o['instance'], '|', str(o.get('detail'))[:100])
for n in getattr(ctx, 'notes', []):
    if sys.argv[3] in str(n): print('NOTE', str(n)[:200])
