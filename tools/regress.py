#!/usr/bin/env python3
"""tools/regress.py [-j N] PROP... — after a rule change: every variant that CORPUS.json says property PROP detects must
still be detected by PROP, every keep-* variant must stay silent for PROP. Prints only the differences."""
import glob, json, os, subprocess, sys, tempfile
sys.path.insert(0, '/verif/rules')
os.environ.setdefault('SCRATCH_FROM_HEAD', '1')
args = sys.argv[1:]
jobs = 4
if args[:1] == ['-j']:
    jobs = int(args[1]); args = args[2:]
worker = None
if args[:1] == ['--worker']:
    worker = args[1]; args = args[2:]
if worker is None:
    props = args
    corpus = json.load(open('/verif/mutants/CORPUS.json'))
    todo = []
    for f in sorted(glob.glob('/verif/mutants/*.patch')):
        name = os.path.basename(f)[:-6]
        if name.startswith('keep-'):
            todo.append((f, props, 'silent'))
        else:
            det = (corpus.get(name) or {}).get('detected_by') or {}
            ps = [p for p in props if p in det]
            if ps:
                todo.append((f, ps, 'detect'))
    tmp = tempfile.mkdtemp(prefix='regress-')
    procs = []
    for i in range(jobs):
        chunk = todo[i::jobs]
        if not chunk:
            continue
        spec = os.path.join(tmp, 'w%d.json' % i)
        json.dump(chunk, open(spec, 'w'))
        env = dict(os.environ, SCRATCH_TARGET_SUFFIX='-r%d' % i)
        procs.append(subprocess.Popen([sys.executable, __file__, '--worker', spec], env=env))
    rc = 0
    for p in procs:
        p.wait()
    print('regress: %d variants checked for %s' % (len(todo), props))
    sys.exit(0)
import scratch
for f, props, want in json.load(open(worker)):
    r = scratch.run_patch(f, props)
    name = os.path.basename(f)
    if 'error' in r:
        print('ERROR', name, r['error'][:100], flush=True)
        continue
    for p in props:
        hit = sorted({x['rule'] for x in r[p]})
        if want == 'silent' and hit:
            print('FALSE-ALARM %s %s %s' % (name, p, hit), flush=True)
            for x in r[p][:6]:
                print('     %s :: %s' % (x['key'], (x.get('message') or '')[:200]), flush=True)
        if want == 'detect' and not hit:
            print('LOST %s %s' % (name, p), flush=True)
