#!/usr/bin/env python3
"""tools/matrix.py [-j N] [patch...] — runs all claimed checks against every patch of /verif/mutants (on scratch copies)
and writes /verif/mutants/CORPUS.json: patch -> properties whose check reports a violation (+ rule ids).
Corpus maintenance only (not a registered check); run with SCRATCH_FROM_HEAD=1 and redirect the output to a file."""
import glob, json, os, subprocess, sys, tempfile
sys.path.insert(0, '/verif/rules')
os.environ.setdefault('SIMLINT_FACTS_KEEP', '150')
args = sys.argv[1:]
jobs = 1
worker_out = None
if args[:1] == ['-j']:
    jobs = int(args[1]); args = args[2:]
if args[:1] == ['--worker-out']:
    worker_out = args[1]; args = args[2:]
props = [c['property_id'] for c in json.load(open('/verif/MANIFEST.json'))['checks']]
patches = [os.path.abspath(x) for x in args] or sorted(glob.glob('/verif/mutants/*.patch'))
path = '/verif/mutants/CORPUS.json'
if jobs > 1:
    tmp = tempfile.mkdtemp(prefix='matrix-')
    procs = []
    for i in range(jobs):
        chunk = patches[i::jobs]
        if not chunk:
            continue
        env = dict(os.environ, SCRATCH_TARGET_SUFFIX='-w%d' % i)
        out = os.path.join(tmp, 'w%d.json' % i)
        procs.append((subprocess.Popen([sys.executable, __file__, '--worker-out', out] + chunk, env=env), out))
    corpus = json.load(open(path)) if os.path.exists(path) else {}
    for pr, out in procs:
        pr.wait()
        if os.path.exists(out):
            corpus.update(json.load(open(out)))
    json.dump(corpus, open(path, 'w'), indent=1, sort_keys=True)
    sys.exit(0)
import scratch
corpus = {} if worker_out else (json.load(open(path)) if os.path.exists(path) else {})
target = worker_out or path
for p in patches:
    name = os.path.basename(p)[:-6]
    res = scratch.run_patch(p, props)
    if 'error' in res:
        corpus[name] = {'error': res['error']}
        print(name, 'ERROR', res['error'][:100], flush=True)
    else:
        hit = {k: sorted({f['rule'] for f in v}) for k, v in res.items() if v}
        corpus[name] = {'detected_by': hit}
        print(name, '->', hit if hit else 'SILENT', flush=True)
    json.dump(corpus, open(target, 'w'), indent=1, sort_keys=True)
json.dump(corpus, open(target, 'w'), indent=1, sort_keys=True)
