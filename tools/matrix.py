#!/usr/bin/env python3
"""tools/matrix.py [patch...] — runs all claimed checks against every patch of /verif/mutants (on scratch copies) and
writes /verif/mutants/CORPUS.json: patch -> properties whose check reports a violation (+ rule ids)."""
import glob, json, os, sys
sys.path.insert(0, '/verif/rules')
import scratch
props = [c['property_id'] for c in json.load(open('/verif/MANIFEST.json'))['checks']]
patches = [os.path.abspath(x) for x in sys.argv[1:]] or sorted(glob.glob('/verif/mutants/*.patch'))
path = '/verif/mutants/CORPUS.json'
corpus = json.load(open(path)) if os.path.exists(path) else {}
for p in patches:
    name = os.path.basename(p)[:-6]
    res = scratch.run_patch(p, props)
    if 'error' in res:
        corpus[name] = {'error': res['error']}
        print(name, 'ERROR', res['error'][:100]); continue
    hit = {k: sorted({f['rule'] for f in v}) for k, v in res.items() if v}
    corpus[name] = {'detected_by': hit}
    print(name, '->', hit if hit else 'SILENT')
    json.dump(corpus, open(path, 'w'), indent=1, sort_keys=True)
json.dump(corpus, open(path, 'w'), indent=1, sort_keys=True)
