#!/usr/bin/env python3
"""regenerates /verif/MANIFEST.json from the rule modules present under rules/props"""
import json, os, sys, importlib
V = '/verif'
sys.path.insert(0, V + '/rules')
props = [json.loads(l) for l in open(V + '/properties.jsonl')]
NA = {
}
LEVEL_TEXT = {}
checks = []
na = []
for p in props:
    pid = p['id']
    if os.path.exists('%s/rules/props/%s.py' % (V, pid)) and pid not in NA:
        mod = importlib.import_module('props.' + pid)
        checks.append({
            'property_id': pid,
            'quick_cmd': './check %s --tier quick' % pid,
            'thorough_cmd': './check %s --tier thorough' % pid,
            'evidence_file': '/verif/evidence/%s.json' % pid,
            'replay_cmd_template': 'cat {path}',
            'engine': 'simlint+rules',
            'level_claimed': {
                'category': 'other',
                'text': 'static analysis of the type-checked program (rustc MIR): ' + mod.EXPLANATION +
                        ' Holds for every input/schedule because the decided clauses are properties of all paths of the analysed bodies; the behaviour beyond these clauses is not decided: ' + '; '.join(mod.NOT_DECIDED),
                'design_ref': 'DESIGN.md §4 ' + pid,
            },
            'level_note': 'trusted base: ' + '; '.join(mod.ASSUMPTIONS) + '; the simlint driver and the Python rule library',
            'technique': getattr(mod, 'TECHNIQUE', 'static analysis: custom MIR dataflow / path-condition / wiring rules over a rustc_private driver dump'),
        })
    else:
        na.append({'property_id': pid, 'reason': NA.get(pid, 'check not built yet (build round in progress)')})
m = {
 'version': 1,
 'setup_cmd': 'cd /verif && python3 rules/extract.py default && python3 rules/selftest.py >/dev/null',
 'hooks': {'guard': 'similari_verif', 'enable': 'none: static analysis reads the unmodified source; no hook commits exist',
           'baseline_off_cmd': 'cd /repo && cargo test --workspace --no-fail-fast --offline', 'source_commits': [], 'add_only': True},
 'engines': [
   {'name': 'simlint', 'path': '/verif/simlint', 'serves_properties': [c['property_id'] for c in checks], 'kind_free_text': 'rustc_private driver (nightly) injected as RUSTC_WORKSPACE_WRAPPER under cargo +nightly check; dumps MIR bodies, ADT/impl tables of the type-checked crate as JSONL facts'},
   {'name': 'rules', 'path': '/verif/rules', 'serves_properties': [c['property_id'] for c in checks], 'kind_free_text': 'Python rule library over the facts: CFG/dominators/loops, origin tracing, path conditions, restore-on-error dataflow, must-pass-through counting, wiring tables, lock/blocking discipline'},
 ],
 'checks': checks,
 'notes': 'Technique family: static analysis only. Every claimed property is claimed through named structural clauses (see DESIGN.md §4); evidence lists the rule instances evaluated. known_findings.json lists recorded defects (fixed: entries suppress nothing).',
 'not_applicable': na,
}
json.dump(m, open(V + '/MANIFEST.json', 'w'), indent=1)
print('claimed', [c['property_id'] for c in checks])
