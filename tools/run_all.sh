#!/bin/bash
# runs every claimed check (quick tier) on /repo's working tree; prints one line per property
cd /verif
rc=0
python3 tools/lint_rules.py 2>/dev/null | grep -v WARNING || true
python3 tools/lint_rules.py >/dev/null 2>&1 || { echo 'LINT rc=1 undefined names in the rule library'; rc=1; }
for p in $(python3 -c "import json;print(' '.join(c['property_id'] for c in json.load(open('MANIFEST.json'))['checks']))"); do
  out=$(./check $p --tier ${1:-quick} 2>&1); r=$?
  echo "$p rc=$r $(echo "$out" | tail -1 | cut -c1-160)"
  [ $r -ne 0 ] && { rc=1; echo "$out" | head -20; }
done
exit $rc
