#!/bin/bash
# runs every claimed check (quick tier) on /repo's working tree; prints one line per property
cd /verif
rc=0
python3 tools/lint_rules.py 2>/dev/null | grep -v WARNING || true
python3 tools/lint_rules.py >/dev/null 2>&1 || { echo 'LINT rc=1 undefined names in the rule library'; rc=1; }
for p in $(python3 -c "import json;print(' '.join(c['property_id'] for c in json.load(open('MANIFEST.json'))['checks']))"); do
  out=$(./check $p --tier ${1:-quick} 2>&1); r=$?
  echo "$p rc=$r $(echo "$out" | tail -1 | cut -c1-160)"
  [ $r -ne 0 ] && { rc=1; echo "$out" | head -20; }
  # formula rules have a soft floor (never alarm on an unreadable shape): on /repo HEAD they must all be evaluated
  python3 - "$p" <<'PY' || rc=1
import json, sys
e = json.load(open('/verif/evidence/%s.json' % sys.argv[1]))
bad = {k: v for k, v in e['coverage'].get('formula_rules_evaluated', {}).items() if v['evaluated'] < v['on_reference_tree']}
if bad:
    print('SOFT-FLOOR %s: formula rules not fully evaluated on this tree: %s' % (sys.argv[1], bad))
    sys.exit(1)
PY
done
exit $rc
