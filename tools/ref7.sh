#!/bin/bash
# tools/ref5.sh <area>... : take /tmp/ref7/<area>/OUT/patch<k>.diff into mutants/keep-ref7-<area>-<k>.patch and run every check on
# each (scratch copy of /repo HEAD, rule library snapshotted first)
cd /verif
SNAP=/tmp/ref7/snap6-$$
mkdir -p $SNAP && rsync -a --exclude .build --exclude .git --exclude evidence /verif/rules /verif/tools /verif/simlint /verif/fixtures /verif/known_findings.json /verif/MANIFEST.json $SNAP/ && ln -sfn /verif/.build $SNAP/.build && ln -sfn /verif/mutants $SNAP/mutants
for A in "$@"; do
  mkdir -p design/refactor-notes; [ -f /tmp/ref7/$A/OUT/NOTES.md ] && cp /tmp/ref7/$A/OUT/NOTES.md design/refactor-notes/$A-round7.md
  for k in 1 2 3 4 5 6; do
    f=/tmp/ref7/$A/OUT/patch$k.diff; [ -f $f ] || continue
    cp $f mutants/keep-ref7-$A-$k.patch
    echo "== keep-ref7-$A-$k"; (cd $SNAP && SIMLINT_EVIDENCE_DIR=$SNAP/evidence MSGLEN=260 python3 tools/trypatch.py /verif/mutants/keep-ref7-$A-$k.patch 2>&1 | tail -12)
  done
done
rm -rf $SNAP
