#!/bin/bash
# tools/round4.sh <PROP>... : confirm round-4 seeds from /tmp/seed4/<PROP>/OUT in a scratch worktree, then run all checks on each (scratch copy)
cd /verif
for P in "$@"; do
  SEED_ROOT=/tmp/seed4 SEED_SUFFIX=-r4 SEED_KS="1 2 3" bash tools/confirm_seeds.sh $P 2>&1 | grep -E "CONFIRMED|APPLY" | cut -c1-60
  for k in 1 2 3; do
    d=seeded/$P-r4-$k; [ -f $d/patch.diff ] || continue
    echo "== $P-r4-$k"; MSGLEN=220 python3 tools/trypatch.py $d/patch.diff 2>&1 | tail -8
  done
done
