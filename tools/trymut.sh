#!/bin/bash
# usage: trymut.sh <patch> <PROP>...   — applies a patch to /repo, runs the checks, restores /repo and the evidence
set -u
patch=$1; shift
cd /repo || exit 2
if ! git diff --quiet; then echo "/repo dirty"; exit 2; fi
git apply "$patch" || { echo "PATCH-FAILED"; exit 2; }
for p in "$@"; do (cd /verif && ./check $p 2>&1 | tail -12); done
git -C /repo checkout -- .
for p in "$@"; do (cd /verif && ./check $p >/dev/null 2>&1); done
