#!/usr/bin/env python3
"""tools/canonlog.py <patch> — prints the rename / move map the canonicalisation derives for HEAD + patch"""
import os, subprocess, sys
V = os.path.dirname(os.path.dirname(os.path.abspath(__file__)))
sys.path.insert(0, os.path.join(V, 'rules'))
import mir
p = subprocess.run([sys.executable, os.path.join(V, 'tools', 'factsof.py'), sys.argv[1]], capture_output=True, text=True).stdout.strip().split('\n')[-1]
F = mir.Facts(p)
print('moved:', F.relocations)
for l in F.canon.log:
    print(' ', l)
for a, b in sorted(F.fn_renames.items()):
    print('  fn', a, '->', b)
