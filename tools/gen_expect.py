#!/usr/bin/env python3
"""mutants/CORPUS.json (measured) -> mutants/EXPECT.json (expectation table used by the thorough tier)"""
import json, re
c = json.load(open('/verif/mutants/CORPUS.json'))
e = {}
for name, r in sorted(c.items()):
    if 'error' in r:
        continue
    det = sorted(r.get('detected_by', {}))
    if name.startswith('keep-'):
        e[name] = {'kind': 'preserving', 'expect': []}
        if det:
            print('WARNING preserving variant alarms:', name, det)
    else:
        m = re.match(r'(?:seed\d*-)?(C\d\d)', name)
        own = m.group(1) if m else None
        e[name] = {'kind': 'breaking', 'property': own, 'expect': det}
        if own and own not in det:
            e[name]['note'] = 'not reported by the check of its own property' + (
                ' (outside the claimed clauses)' if not det else '; reported by ' + ','.join(det))
            print('NOTE', name, e[name]['note'])
json.dump(e, open('/verif/mutants/EXPECT.json', 'w'), indent=1, sort_keys=True)
print(len(e), 'variants')
