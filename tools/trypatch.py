#!/usr/bin/env python3
"""tools/trypatch.py <patch> [PROP…] — run the rule modules on a scratch copy of /repo (HEAD) with the patch applied;
/repo itself is not touched. Without properties all claimed ones are run."""
import os
import sys
V = os.path.dirname(os.path.dirname(os.path.abspath(__file__)))
sys.path.insert(0, os.path.join(V, 'rules'))
os.environ.setdefault('SCRATCH_FROM_HEAD', '1')
import scratch  # noqa: E402
ALL = sorted(f[:-3] for f in os.listdir(os.path.join(V, 'rules', 'props')) if f.startswith('C') and f.endswith('.py'))
patch = os.path.abspath(sys.argv[1])
props = sys.argv[2:] or ALL
r = scratch.run_patch(patch, props)
if 'error' in r:
    print('ERROR', r['error'])
    sys.exit(2)
hit = False
for p in props:
    for f in r[p]:
        hit = True
        print('%s %s %s :: %s' % (p, f.get('rule'), f.get('key'), (f.get("message") or "")[:int(os.environ.get("MSGLEN", "160"))]))
print('DETECTED' if hit else 'SILENT', os.path.basename(patch))
