#!/bin/bash
# tools/round4.sh <PROP>... : confirm round-5 seeds from /tmp/seed6/<PROP>/OUT in a scratch worktree, then run all checks on
# each (scratch copy of /repo). The rule library is snapshotted first so that edits in /verif do not disturb a running batch.
cd /verif
SNAP=/tmp/seed6/snap6-$$
mkdir -p $SNAP && rsync -a --exclude .build --exclude .git --exclude evidence /verif/rules /verif/tools /verif/simlint /verif/fixtures /verif/known_findings.json $SNAP/ && ln -sfn /verif/.build $SNAP/.build && ln -sfn /verif/seeded $SNAP/seeded && ln -sfn /verif/mutants $SNAP/mutants
for P in "$@"; do
  SEED_ROOT=/tmp/seed6 SEED_SUFFIX=-r6 SEED_KS="1 2 3" bash tools/confirm_seeds.sh $P 2>&1 | grep -E "CONFIRMED|APPLY" | cut -c1-60
  for k in 1 2 3; do
    d=seeded/$P-r6-$k; [ -f $d/patch.diff ] || continue
    echo "== $P-r6-$k"; (cd $SNAP && SIMLINT_EVIDENCE_DIR=$SNAP/evidence MSGLEN=220 python3 tools/trypatch.py /verif/$d/patch.diff 2>&1 | tail -8)
  done
done
rm -rf $SNAP
