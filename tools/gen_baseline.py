#!/usr/bin/env python3
"""tools/gen_baseline.py — regenerates rules/baseline_fns.txt (normalised path, arity, return type, parameter types of
every function of the REFERENCE tree = /repo HEAD). Run only when /repo's HEAD changes (a fix: commit)."""
import json
import os
import sys
V = os.path.dirname(os.path.dirname(os.path.abspath(__file__)))
sys.path.insert(0, os.path.join(V, 'rules'))
import extract  # noqa: E402
from mir import norm  # noqa: E402
p, info = extract.facts_for(quiet=True)
out = {}
for l in open(p):
    if not l.startswith('{"path"'):
        continue
    d = json.loads(l)
    if d.get('kind') not in ('Fn', 'AssocFn'):
        continue
    np_ = norm(d['path'])
    if np_ in out:
        continue
    out[np_] = (d['nargs'], d['locals'][0], ' | '.join(d['locals'][1:d['nargs'] + 1]))
with open(os.path.join(V, 'rules', 'baseline_fns.txt'), 'w') as f:
    for k in sorted(out):
        f.write('%s\t%d\t%s\t%s\n' % ((k,) + out[k]))
import canon  # noqa: E402
h = json.loads(open(p).readline())
roots = {'track', 'trackers', 'utils', 'distance', 'prelude', 'examples'}
items = set()
for a in h['adts']:
    items.add(('adt', a['path']))
for c in h['consts']:
    items.add(('const', c['path']))
for i in h['impls']:
    t = i.get('trait')
    if t and t.split('::', 1)[0] in roots:
        items.add(('trait', t.split('<', 1)[0]))
with open(os.path.join(V, 'rules', 'baseline_items.txt'), 'w') as f:
    for k, v in sorted(items):
        f.write('%s\t%s\n' % (k, v))
built = canon.built_in(open(p).read().split('\n')[1:])
json.dump({a['path']: {'kind': a['kind'], 'variants': [{'name': v['name'], 'built_in': sorted(built.get((a['path'], v['name']), [])), 'fields': [
    {'name': f['name'], 'ty': f['ty']} for f in v['fields']]} for v in a['variants']]} for a in h['adts']},
    open(os.path.join(V, 'rules', 'baseline_adts.json'), 'w'), indent=0, sort_keys=True)
ti = {}
for i in h['impls']:
    t = i.get('trait')
    if t and t.split('::', 1)[0] in roots:
        ti.setdefault(t.split('<', 1)[0], set()).add(canon.leaf(i['self']))
json.dump({k: sorted(v) for k, v in ti.items()}, open(os.path.join(V, 'rules', 'baseline_trait_impls.json'), 'w'),
          indent=0, sort_keys=True)
print(len(out), 'functions', len(items), 'items', len(h['adts']), 'adts', len(ti), 'traits')
