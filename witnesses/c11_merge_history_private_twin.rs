// compiling twin of c11_merge_history_private_fail.rs: differs only by the offending line
use similari::track::notify::ChangeNotifier;
use similari::track::{ObservationAttributes, ObservationMetric, Track, TrackAttributes};

#[allow(dead_code)]
fn poke<TA, M, OA, N>(t: &mut Track<TA, M, OA, N>) -> usize
where
    TA: TrackAttributes<TA, OA>,
    M: ObservationMetric<TA, OA>,
    OA: ObservationAttributes,
    N: ChangeNotifier,
{
    t.get_merge_history().len()
}

fn main() {}
