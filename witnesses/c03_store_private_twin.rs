// compiling twin of c03_store_private_fail.rs: differs only by the offending line
use similari::trackers::sort::simple_api::Sort;
use similari::trackers::sort::PositionalMetricType;
use similari::trackers::tracker_api::TrackerAPI;

fn main() {
    let s = Sort::new(1, 1, 1, PositionalMetricType::IoU(0.3), 0.1, None, 1.0 / 20.0, 1.0 / 160.0);
    let n = s.active_shard_stats().len();
    println!("{}", n);
}
