// compiling twin of c14_subset_fail.rs: differs only in where the result is used (inside the lifetime of the input)
use similari::utils::bbox::Universal2DBox;
use similari::utils::nms::nms;

fn main() {
    let kept;
    {
        let detections = vec![(Universal2DBox::new(0.0, 0.0, None, 1.0, 10.0), Some(0.9_f32))];
        kept = nms(&detections, 0.5, None);
        println!("{}", kept.len());
    }
}
