// C14 R14.4 witness: the boxes returned by nms() borrow from the input slice, so the result cannot outlive the
// detections it was computed from (result ⊆ input is carried by the signature's lifetime). MUST NOT compile (E0597).
use similari::utils::bbox::Universal2DBox;
use similari::utils::nms::nms;

fn main() {
    let kept;
    {
        let detections = vec![(Universal2DBox::new(0.0, 0.0, None, 1.0, 10.0), Some(0.9_f32))];
        kept = nms(&detections, 0.5, None);
    } // `detections` dropped here while still borrowed by `kept`
    println!("{}", kept.len());
}
