// C11 witness: a track's merge history (and its attributes / observations) can only be changed through the track's own
// mutators, which snapshot and restore on failure. MUST NOT compile (E0616).
use similari::track::notify::ChangeNotifier;
use similari::track::{ObservationAttributes, ObservationMetric, Track, TrackAttributes};

#[allow(dead_code)]
fn poke<TA, M, OA, N>(t: &mut Track<TA, M, OA, N>) -> usize
where
    TA: TrackAttributes<TA, OA>,
    M: ObservationMetric<TA, OA>,
    OA: ObservationAttributes,
    N: ChangeNotifier,
{
    t.merge_history.len()
}

fn main() {}
