// compiling twin of c19_cache_private_fail.rs: differs only by the offending line
use similari::utils::bbox::Universal2DBox;

fn main() {
    let b = Universal2DBox::new_with_confidence(0.0, 0.0, None, 1.0, 1.0, 1.0);
    println!("{:?}", b.get_radius());
}
