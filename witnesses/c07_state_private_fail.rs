// C07 witness: the filter state (mean, covariance) cannot be edited from outside the crate; it only changes through
// initiate / predict / update. MUST NOT compile (E0616).
use similari::utils::kalman::kalman_2d_box::DIM_2D_BOX_X2;
use similari::utils::kalman::KalmanState;

fn poke(s: &KalmanState<{ DIM_2D_BOX_X2 }>) -> f32 {
    s.mean[0]
}

fn main() {
    let _ = poke;
}
