// compiling twin of c07_state_private_fail.rs: differs only by the offending line
use similari::utils::kalman::kalman_2d_box::DIM_2D_BOX_X2;
use similari::utils::kalman::KalmanState;

fn poke(s: &KalmanState<{ DIM_2D_BOX_X2 }>) -> f32 {
    s.mean_pos_xc()
}

fn main() {
    let _ = poke;
}
