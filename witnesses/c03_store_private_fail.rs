// C03/C09/C01 encapsulation witness: the tracker's stores are private, so code outside the crate cannot move, add or
// drop tracks behind the tracker's bookkeeping (the conservation / who-may-write rules reason about the crate only).
// MUST NOT compile (E0616).
use similari::trackers::sort::simple_api::Sort;
use similari::trackers::sort::PositionalMetricType;
use similari::trackers::tracker_api::TrackerAPI;

fn main() {
    let s = Sort::new(1, 1, 1, PositionalMetricType::IoU(0.3), 0.1, None, 1.0 / 20.0, 1.0 / 160.0);
    let n = s.store.read().unwrap().shard_stats().len();
    println!("{}", n);
}
