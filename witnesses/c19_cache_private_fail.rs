// C19/C14/C08 witness: a box cannot be built with a hand-made vertex cache from outside the crate (the cache is only
// ever computed by gen_vertices() from the box's own geometry). MUST NOT compile (E0451).
use similari::utils::bbox::Universal2DBox;

fn main() {
    let b = Universal2DBox { xc: 0.0, yc: 0.0, angle: None, aspect: 1.0, height: 1.0, confidence: 1.0, _vertex_cache: None };
    println!("{:?}", b.get_radius());
}
