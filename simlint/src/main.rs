// simlint: facts extractor. A rustc_private driver that type-checks the crate exactly as
// the real build does and dumps, for every MIR body of the local crate, a JSON description
// (one line per body) plus ADT / impl / const tables. Nothing is executed.
//
// Protocol: used as RUSTC_WORKSPACE_WRAPPER (argv[1] is the real rustc path and is dropped).
// Output: $SIMLINT_OUT/<crate_name>.<pid>.jsonl, written with a single write at the end.
#![feature(rustc_private)]

extern crate rustc_abi;
extern crate rustc_driver;
extern crate rustc_hir;
extern crate rustc_interface;
extern crate rustc_middle;
extern crate rustc_span;

use rustc_driver::Compilation;
use rustc_hir::def::DefKind;
use rustc_hir::def_id::{DefId, LOCAL_CRATE};
use rustc_middle::mir::{
    AggregateKind, BasicBlock, Body, BorrowKind, CastKind, Const, Operand, Place, PlaceTy,
    ProjectionElem, Rvalue, StatementKind, TerminatorKind, UnwindAction, VarDebugInfoContents,
};
use rustc_middle::ty::print::with_no_trimmed_paths;
use rustc_middle::ty::{self, Ty, TyCtxt, TypingEnv};
use rustc_span::Span;
use std::fmt::Write as _;

fn esc(s: &str) -> String {
    let mut o = String::with_capacity(s.len() + 2);
    o.push('"');
    for c in s.chars() {
        match c {
            '"' => o.push_str("\\\""),
            '\\' => o.push_str("\\\\"),
            '\n' => o.push_str("\\n"),
            '\r' => o.push_str("\\r"),
            '\t' => o.push_str("\\t"),
            c if (c as u32) < 0x20 => {
                let _ = write!(o, "\\u{:04x}", c as u32);
            }
            c => o.push(c),
        }
    }
    o.push('"');
    o
}

struct Cx<'tcx> {
    tcx: TyCtxt<'tcx>,
}

impl<'tcx> Cx<'tcx> {
    fn path(&self, d: DefId) -> String {
        with_no_trimmed_paths!(self.tcx.def_path_str(d))
    }
    fn ty(&self, t: Ty<'tcx>) -> String {
        with_no_trimmed_paths!(format!("{}", t))
    }
    fn span(&self, sp: Span) -> String {
        let sp = sp.source_callsite();
        let sm = self.tcx.sess.source_map();
        let lo = sm.lookup_char_pos(sp.lo());
        let name = match &lo.file.name {
            rustc_span::FileName::Real(r) => match r.local_path() {
                Some(p) => p.display().to_string(),
                None => format!("{:?}", lo.file.name),
            },
            other => format!("{:?}", other),
        };
        format!("{}:{}", name, lo.line)
    }

    fn place(&self, body: &Body<'tcx>, p: &Place<'tcx>) -> String {
        let mut o = String::new();
        let _ = write!(o, "{{\"l\":{},\"p\":[", p.local.as_usize());
        let mut pty = PlaceTy::from_ty(body.local_decls[p.local].ty);
        let mut first = true;
        for elem in p.projection.iter() {
            if !first {
                o.push(',');
            }
            first = false;
            match elem {
                ProjectionElem::Deref => o.push_str("\"*\""),
                ProjectionElem::Field(idx, _fty) => {
                    let base = pty.ty;
                    match base.kind() {
                        ty::Adt(adt, _) => {
                            let v = pty.variant_index.unwrap_or(rustc_abi::FIRST_VARIANT);
                            let var = adt.variant(v);
                            let fname = var.fields[idx].name.to_string();
                            let _ = write!(
                                o,
                                "{{\"f\":{},\"n\":{},\"adt\":{},\"v\":{}}}",
                                idx.as_usize(),
                                esc(&fname),
                                esc(&self.path(adt.did())),
                                esc(&var.name.to_string())
                            );
                        }
                        ty::Closure(def, _) => {
                            let _ = write!(
                                o,
                                "{{\"f\":{},\"closure\":{}}}",
                                idx.as_usize(),
                                esc(&self.path(*def))
                            );
                        }
                        _ => {
                            let _ = write!(o, "{{\"f\":{}}}", idx.as_usize());
                        }
                    }
                }
                ProjectionElem::Index(l) => {
                    let _ = write!(o, "{{\"idx\":{}}}", l.as_usize());
                }
                ProjectionElem::ConstantIndex { offset, from_end, .. } => {
                    let _ = write!(o, "{{\"cidx\":{},\"from_end\":{}}}", offset, from_end);
                }
                ProjectionElem::Subslice { from, to, from_end } => {
                    let _ = write!(o, "{{\"sub\":[{},{}],\"from_end\":{}}}", from, to, from_end);
                }
                ProjectionElem::Downcast(name, _) => {
                    let n = name.map(|s| s.to_string()).unwrap_or_default();
                    let _ = write!(o, "{{\"dc\":{}}}", esc(&n));
                }
                ProjectionElem::OpaqueCast(_) => o.push_str("\"opaque\""),
                ProjectionElem::UnwrapUnsafeBinder(_) => o.push_str("\"unbinder\""),
            }
            pty = pty.projection_ty(self.tcx, elem);
        }
        o.push_str("]}");
        o
    }

    fn constant(&self, body_def: DefId, c: &Const<'tcx>) -> String {
        let tcx = self.tcx;
        let t = c.ty();
        let mut o = String::new();
        let _ = write!(o, "{{\"ty\":{}", esc(&self.ty(t)));
        match t.kind() {
            ty::FnDef(def, args) => {
                let _ = write!(o, ",\"fn\":{}", esc(&self.path(*def)));
                o.push_str(",\"ga\":[");
                let mut first = true;
                for a in args.iter() {
                    if !first {
                        o.push(',');
                    }
                    first = false;
                    o.push_str(&esc(&with_no_trimmed_paths!(format!("{}", a))));
                }
                o.push(']');
                if let Some(tr) = tcx.trait_of_assoc(*def) {
                    let _ = write!(o, ",\"trait\":{}", esc(&self.path(tr)));
                }
                if let Some(imp) = tcx.inherent_impl_of_assoc(*def) {
                    let st = tcx.type_of(imp).instantiate_identity().skip_norm_wip();
                    let _ = write!(o, ",\"impl_self\":{}", esc(&self.ty(st)));
                }
                // try to resolve trait calls
                let env = TypingEnv::post_analysis(tcx, body_def);
                if let Ok(Some(inst)) = ty::Instance::try_resolve(tcx, env, *def, args) {
                    let rd = inst.def_id();
                    if rd != *def {
                        let _ = write!(o, ",\"res\":{}", esc(&self.path(rd)));
                    }
                }
            }
            _ => {
                let env = TypingEnv::post_analysis(tcx, body_def);
                if let Some(si) = c.try_eval_scalar_int(tcx, env) {
                    let bits = si.to_bits_unchecked();
                    match t.kind() {
                        ty::Bool => {
                            let _ = write!(o, ",\"v\":{}", if bits != 0 { "true" } else { "false" });
                        }
                        ty::Float(ty::FloatTy::F32) => {
                            let f = f32::from_bits(bits as u32);
                            let _ = write!(o, ",\"v\":{},\"fv\":{}", esc(&format!("{:?}", f)), bits);
                        }
                        ty::Float(ty::FloatTy::F64) => {
                            let f = f64::from_bits(bits as u64);
                            let _ = write!(o, ",\"v\":{},\"fv\":{}", esc(&format!("{:?}", f)), bits);
                        }
                        ty::Int(_) => {
                            let size = si.size();
                            let v = size.sign_extend(bits);
                            let _ = write!(o, ",\"v\":{}", esc(&v.to_string()));
                        }
                        _ => {
                            let _ = write!(o, ",\"v\":{}", esc(&bits.to_string()));
                        }
                    }
                } else {
                    // strings and others: use the pretty form
                    let s = with_no_trimmed_paths!(format!("{}", c));
                    let _ = write!(o, ",\"s\":{}", esc(&s));
                }
                // name of a referenced const item, if any
                if let Const::Unevaluated(u, _) = c {
                    let _ = write!(o, ",\"item\":{}", esc(&self.path(u.def)));
                }
            }
        }
        o.push('}');
        o
    }

    fn operand(&self, body_def: DefId, body: &Body<'tcx>, op: &Operand<'tcx>) -> String {
        match op {
            Operand::Copy(p) => format!("{{\"k\":\"copy\",\"pl\":{}}}", self.place(body, p)),
            Operand::Move(p) => format!("{{\"k\":\"move\",\"pl\":{}}}", self.place(body, p)),
            Operand::Constant(c) => {
                format!("{{\"k\":\"const\",\"c\":{}}}", self.constant(body_def, &c.const_))
            }
            _ => "{\"k\":\"rtcheck\"}".to_string(),
        }
    }

    fn rvalue(&self, body_def: DefId, body: &Body<'tcx>, rv: &Rvalue<'tcx>) -> String {
        match rv {
            Rvalue::Use(op, ..) => {
                format!("{{\"k\":\"use\",\"op\":{}}}", self.operand(body_def, body, op))
            }
            Rvalue::CopyForDeref(p) => {
                format!("{{\"k\":\"use\",\"op\":{{\"k\":\"copy\",\"pl\":{}}}}}", self.place(body, p))
            }
            Rvalue::Ref(_, bk, p) => {
                let m = matches!(bk, BorrowKind::Mut { .. });
                format!("{{\"k\":\"ref\",\"mut\":{},\"pl\":{}}}", m, self.place(body, p))
            }
            Rvalue::RawPtr(kind, p) => {
                format!(
                    "{{\"k\":\"rawptr\",\"rk\":{},\"pl\":{}}}",
                    esc(&format!("{:?}", kind)),
                    self.place(body, p)
                )
            }
            Rvalue::Cast(ck, op, t) => {
                let ckn = match ck {
                    CastKind::Transmute => "Transmute".to_string(),
                    CastKind::PointerCoercion(pc, _) => format!("PointerCoercion({:?})", pc),
                    other => format!("{:?}", other),
                };
                let src_ty = op.ty(&body.local_decls, self.tcx);
                format!(
                    "{{\"k\":\"cast\",\"ck\":{},\"op\":{},\"ty\":{},\"from\":{}}}",
                    esc(&ckn),
                    self.operand(body_def, body, op),
                    esc(&self.ty(*t)),
                    esc(&self.ty(src_ty))
                )
            }
            Rvalue::BinaryOp(op, ab) => {
                format!(
                    "{{\"k\":\"bin\",\"op\":{},\"a\":{},\"b\":{}}}",
                    esc(&format!("{:?}", op)),
                    self.operand(body_def, body, &ab.0),
                    self.operand(body_def, body, &ab.1)
                )
            }
            Rvalue::UnaryOp(op, a) => {
                format!(
                    "{{\"k\":\"un\",\"op\":{},\"a\":{}}}",
                    esc(&format!("{:?}", op)),
                    self.operand(body_def, body, a)
                )
            }
            Rvalue::Discriminant(p) => {
                let pt = p.ty(&body.local_decls, self.tcx).ty;
                let mut vs = String::from("[");
                if let ty::Adt(adt, _) = pt.kind() {
                    if adt.is_enum() {
                        let mut first = true;
                        for (vi, d) in adt.discriminants(self.tcx) {
                            if !first {
                                vs.push(',');
                            }
                            first = false;
                            let _ = write!(
                                vs,
                                "[{},{}]",
                                esc(&d.val.to_string()),
                                esc(&adt.variant(vi).name.to_string())
                            );
                        }
                    }
                }
                vs.push(']');
                format!(
                    "{{\"k\":\"discr\",\"pl\":{},\"ty\":{},\"variants\":{}}}",
                    self.place(body, p),
                    esc(&self.ty(pt)),
                    vs
                )
            }
            Rvalue::Aggregate(kind, ops) => {
                let mut o = String::from("{\"k\":\"agg\"");
                match &**kind {
                    AggregateKind::Array(_) => o.push_str(",\"ak\":\"array\""),
                    AggregateKind::Tuple => o.push_str(",\"ak\":\"tuple\""),
                    AggregateKind::Adt(def, vidx, _, _, active) => {
                        let adt = self.tcx.adt_def(*def);
                        let var = adt.variant(*vidx);
                        let _ = write!(
                            o,
                            ",\"ak\":\"adt\",\"adt\":{},\"v\":{},\"fields\":[",
                            esc(&self.path(*def)),
                            esc(&var.name.to_string())
                        );
                        let mut first = true;
                        if let Some(a) = active {
                            o.push_str(&esc(&var.fields[*a].name.to_string()));
                        } else {
                            for f in var.fields.iter() {
                                if !first {
                                    o.push(',');
                                }
                                first = false;
                                o.push_str(&esc(&f.name.to_string()));
                            }
                        }
                        o.push(']');
                    }
                    AggregateKind::Closure(def, _) => {
                        let _ = write!(o, ",\"ak\":\"closure\",\"def\":{}", esc(&self.path(*def)));
                    }
                    AggregateKind::Coroutine(def, _) | AggregateKind::CoroutineClosure(def, _) => {
                        let _ = write!(o, ",\"ak\":\"coroutine\",\"def\":{}", esc(&self.path(*def)));
                    }
                    AggregateKind::RawPtr(..) => o.push_str(",\"ak\":\"rawptr\""),
                }
                o.push_str(",\"ops\":[");
                let mut first = true;
                for op in ops.iter() {
                    if !first {
                        o.push(',');
                    }
                    first = false;
                    o.push_str(&self.operand(body_def, body, op));
                }
                o.push_str("]}");
                o
            }
            Rvalue::Repeat(op, _) => {
                format!("{{\"k\":\"repeat\",\"op\":{}}}", self.operand(body_def, body, op))
            }
            Rvalue::ThreadLocalRef(d) => {
                format!("{{\"k\":\"tls\",\"def\":{}}}", esc(&self.path(*d)))
            }
            Rvalue::WrapUnsafeBinder(op, _) => {
                format!("{{\"k\":\"use\",\"op\":{}}}", self.operand(body_def, body, op))
            }
        }
    }

    fn unwind(&self, u: &UnwindAction) -> String {
        match u {
            UnwindAction::Cleanup(bb) => bb.as_usize().to_string(),
            _ => "null".to_string(),
        }
    }

    fn body(&self, def: DefId, body: &Body<'tcx>) -> String {
        let tcx = self.tcx;
        let mut o = String::with_capacity(16 * 1024);
        let kind = tcx.def_kind(def);
        let _ = write!(
            o,
            "{{\"path\":{},\"kind\":{},\"span\":{},\"expn\":{},\"nargs\":{}",
            esc(&self.path(def)),
            esc(&format!("{:?}", kind)),
            esc(&self.span(body.span)),
            tcx.def_span(def).from_expansion(),
            body.arg_count
        );
        let _ = write!(o, ",\"dpath\":{}", esc(&format!("{:?}", tcx.def_path(def).to_string_no_crate_verbose())));
        if matches!(kind, DefKind::Fn | DefKind::AssocFn) {
            let _ = write!(o, ",\"vis\":{}", esc(&format!("{:?}", tcx.visibility(def))));
        }
        if matches!(kind, DefKind::Closure) {
            let parent = tcx.typeck_root_def_id(def);
            let _ = write!(o, ",\"root\":{}", esc(&self.path(parent)));
            let _ = write!(o, ",\"parent\":{}", esc(&self.path(tcx.parent(def))));
        }
        if matches!(kind, DefKind::AssocFn) {
            let p = tcx.parent(def);
            match tcx.def_kind(p) {
                DefKind::Impl { of_trait } => {
                    let st = tcx.type_of(p).instantiate_identity().skip_norm_wip();
                    let _ = write!(o, ",\"impl_self\":{}", esc(&self.ty(st)));
                    if of_trait {
                        let tr = tcx.impl_trait_ref(p).instantiate_identity().skip_norm_wip();
                        let _ = write!(
                            o,
                            ",\"impl_trait\":{},\"impl_trait_ref\":{}",
                            esc(&self.path(tr.def_id)),
                            esc(&with_no_trimmed_paths!(format!("{}", tr)))
                        );
                    }
                }
                DefKind::Trait => {
                    let _ = write!(o, ",\"in_trait\":{}", esc(&self.path(p)));
                }
                _ => {}
            }
            let _ = write!(o, ",\"name\":{}", esc(&tcx.item_name(def).to_string()));
        }
        // locals
        o.push_str(",\"locals\":[");
        for (i, ld) in body.local_decls.iter().enumerate() {
            if i > 0 {
                o.push(',');
            }
            o.push_str(&esc(&self.ty(ld.ty)));
        }
        o.push(']');
        // debug info
        o.push_str(",\"dbg\":[");
        let mut first = true;
        for vdi in body.var_debug_info.iter() {
            if let VarDebugInfoContents::Place(p) = &vdi.value {
                if !first {
                    o.push(',');
                }
                first = false;
                let _ = write!(
                    o,
                    "{{\"name\":{},\"pl\":{},\"arg\":{}}}",
                    esc(&vdi.name.to_string()),
                    self.place(body, p),
                    vdi.argument_index.map(|x| x.to_string()).unwrap_or("null".into())
                );
            }
        }
        o.push(']');
        // blocks
        o.push_str(",\"blocks\":[");
        for (bi, bb) in body.basic_blocks.iter_enumerated() {
            let _: BasicBlock = bi;
            if bi.as_usize() > 0 {
                o.push(',');
            }
            let _ = write!(o, "{{\"cleanup\":{},\"st\":[", bb.is_cleanup);
            let mut first = true;
            for st in bb.statements.iter() {
                let s = match &st.kind {
                    StatementKind::Assign(b) => {
                        let (pl, rv) = &**b;
                        Some(format!(
                            "{{\"k\":\"assign\",\"lhs\":{},\"rv\":{},\"ln\":{},\"x\":{}}}",
                            self.place(body, pl),
                            self.rvalue(def, body, rv),
                            esc(&self.span(st.source_info.span)),
                            st.source_info.span.from_expansion()
                        ))
                    }
                    StatementKind::SetDiscriminant { place, variant_index } => {
                        let pt = place.ty(&body.local_decls, tcx).ty;
                        let vn = if let ty::Adt(adt, _) = pt.kind() {
                            adt.variant(*variant_index).name.to_string()
                        } else {
                            variant_index.as_usize().to_string()
                        };
                        Some(format!(
                            "{{\"k\":\"setdiscr\",\"lhs\":{},\"v\":{}}}",
                            self.place(body, place),
                            esc(&vn)
                        ))
                    }
                    StatementKind::StorageDead(l) => {
                        Some(format!("{{\"k\":\"dead\",\"l\":{}}}", l.as_usize()))
                    }
                    _ => None,
                };
                if let Some(s) = s {
                    if !first {
                        o.push(',');
                    }
                    first = false;
                    o.push_str(&s);
                }
            }
            o.push_str("],\"t\":");
            let term = bb.terminator();
            let ln = esc(&self.span(term.source_info.span));
            let x = term.source_info.span.from_expansion();
            match &term.kind {
                TerminatorKind::Goto { target } => {
                    let _ = write!(o, "{{\"k\":\"goto\",\"target\":{}}}", target.as_usize());
                }
                TerminatorKind::SwitchInt { discr, targets } => {
                    let _ = write!(
                        o,
                        "{{\"k\":\"switch\",\"discr\":{},\"ty\":{},\"targets\":[",
                        self.operand(def, body, discr),
                        esc(&self.ty(discr.ty(&body.local_decls, tcx)))
                    );
                    let mut first = true;
                    for (v, t) in targets.iter() {
                        if !first {
                            o.push(',');
                        }
                        first = false;
                        let _ = write!(o, "[{},{}]", esc(&v.to_string()), t.as_usize());
                    }
                    let _ = write!(o, "],\"otherwise\":{},\"ln\":{},\"x\":{}}}", targets.otherwise().as_usize(), ln, x);
                }
                TerminatorKind::Return => o.push_str("{\"k\":\"return\"}"),
                TerminatorKind::Unreachable => o.push_str("{\"k\":\"unreachable\"}"),
                TerminatorKind::UnwindResume => o.push_str("{\"k\":\"resume\"}"),
                TerminatorKind::UnwindTerminate(_) => o.push_str("{\"k\":\"terminate\"}"),
                TerminatorKind::Drop { place, target, unwind, .. } => {
                    let pt = place.ty(&body.local_decls, tcx).ty;
                    let _ = write!(
                        o,
                        "{{\"k\":\"drop\",\"pl\":{},\"ty\":{},\"target\":{},\"unwind\":{},\"ln\":{}}}",
                        self.place(body, place),
                        esc(&self.ty(pt)),
                        target.as_usize(),
                        self.unwind(unwind),
                        ln
                    );
                }
                TerminatorKind::Call { func, args, destination, target, unwind, fn_span, .. } => {
                    let _ = write!(o, "{{\"k\":\"call\",\"f\":{},\"args\":[", self.operand(def, body, func));
                    let mut first = true;
                    for a in args.iter() {
                        if !first {
                            o.push(',');
                        }
                        first = false;
                        o.push_str(&self.operand(def, body, &a.node));
                    }
                    let _ = write!(
                        o,
                        "],\"dest\":{},\"target\":{},\"unwind\":{},\"ln\":{},\"x\":{},\"fx\":{}}}",
                        self.place(body, destination),
                        target.map(|t| t.as_usize().to_string()).unwrap_or("null".into()),
                        self.unwind(unwind),
                        ln,
                        x,
                        fn_span.from_expansion()
                    );
                }
                TerminatorKind::Assert { cond, expected, target, unwind, msg } => {
                    let _ = write!(
                        o,
                        "{{\"k\":\"assert\",\"cond\":{},\"expected\":{},\"target\":{},\"unwind\":{},\"msg\":{},\"ln\":{}}}",
                        self.operand(def, body, cond),
                        expected,
                        target.as_usize(),
                        self.unwind(unwind),
                        esc(&format!("{:?}", msg).chars().take(60).collect::<String>()),
                        ln
                    );
                }
                TerminatorKind::FalseEdge { real_target, .. } => {
                    let _ = write!(o, "{{\"k\":\"goto\",\"target\":{}}}", real_target.as_usize());
                }
                TerminatorKind::FalseUnwind { real_target, .. } => {
                    let _ = write!(o, "{{\"k\":\"goto\",\"target\":{}}}", real_target.as_usize());
                }
                other => {
                    let _ = write!(
                        o,
                        "{{\"k\":\"other\",\"dbg\":{}}}",
                        esc(&format!("{:?}", other).chars().take(80).collect::<String>())
                    );
                }
            }
            o.push('}');
        }
        o.push_str("]}");
        o
    }

    fn tables(&self) -> String {
        let tcx = self.tcx;
        let mut o = String::new();
        let cname = tcx.crate_name(LOCAL_CRATE).to_string();
        let _ = write!(o, "{{\"header\":true,\"crate\":{},\"adts\":[", esc(&cname));
        let mut first = true;
        let mut consts = Vec::new();
        let mut impls = Vec::new();
        let mut fns = Vec::new();
        for id in tcx.hir_free_items() {
            let def = id.owner_id.to_def_id();
            match tcx.def_kind(def) {
                DefKind::Struct | DefKind::Enum | DefKind::Union => {
                    let adt = tcx.adt_def(def);
                    if !first {
                        o.push(',');
                    }
                    first = false;
                    let _ = write!(
                        o,
                        "{{\"path\":{},\"kind\":{},\"transparent\":{},\"repr_c\":{},\"span\":{},\"variants\":[",
                        esc(&self.path(def)),
                        esc(&format!("{:?}", tcx.def_kind(def))),
                        adt.repr().transparent(),
                        adt.repr().c(),
                        esc(&self.span(tcx.def_span(def)))
                    );
                    let mut fv = true;
                    for v in adt.variants().iter() {
                        if !fv {
                            o.push(',');
                        }
                        fv = false;
                        let _ = write!(o, "{{\"name\":{},\"fields\":[", esc(&v.name.to_string()));
                        let mut ff = true;
                        for f in v.fields.iter() {
                            if !ff {
                                o.push(',');
                            }
                            ff = false;
                            let fty = tcx.type_of(f.did).instantiate_identity().skip_norm_wip();
                            let _ = write!(
                                o,
                                "{{\"name\":{},\"ty\":{},\"vis\":{}}}",
                                esc(&f.name.to_string()),
                                esc(&self.ty(fty)),
                                esc(&format!("{:?}", f.vis))
                            );
                        }
                        o.push_str("]}");
                    }
                    o.push_str("]}");
                }
                DefKind::Const { .. } | DefKind::Static { .. } => {
                    let ty = tcx.type_of(def).instantiate_identity().skip_norm_wip();
                    consts.push(format!(
                        "{{\"path\":{},\"ty\":{},\"span\":{}}}",
                        esc(&self.path(def)),
                        esc(&self.ty(ty)),
                        esc(&self.span(tcx.def_span(def)))
                    ));
                }
                DefKind::Impl { of_trait } => {
                    let st = tcx.type_of(def).instantiate_identity().skip_norm_wip();
                    let mut s = format!(
                        "{{\"self\":{},\"span\":{},\"expn\":{}",
                        esc(&self.ty(st)),
                        esc(&self.span(tcx.def_span(def))),
                        tcx.def_span(def).from_expansion()
                    );
                    if of_trait {
                        let tr = tcx.impl_trait_ref(def).instantiate_identity().skip_norm_wip();
                        let _ = write!(
                            s,
                            ",\"trait\":{},\"trait_ref\":{}",
                            esc(&self.path(tr.def_id)),
                            esc(&with_no_trimmed_paths!(format!("{}", tr)))
                        );
                    }
                    s.push_str(",\"items\":[");
                    let mut fi = true;
                    for it in tcx.associated_items(def).in_definition_order() {
                        if !fi {
                            s.push(',');
                        }
                        fi = false;
                        let _ = write!(
                            s,
                            "{{\"name\":{},\"path\":{},\"kind\":{}}}",
                            esc(&it.name().to_string()),
                            esc(&self.path(it.def_id)),
                            esc(&format!("{:?}", it.kind).chars().take(12).collect::<String>())
                        );
                    }
                    s.push_str("]}");
                    impls.push(s);
                }
                DefKind::Fn => {
                    fns.push(format!(
                        "{{\"path\":{},\"vis\":{},\"span\":{}}}",
                        esc(&self.path(def)),
                        esc(&format!("{:?}", tcx.visibility(def))),
                        esc(&self.span(tcx.def_span(def)))
                    ));
                }
                _ => {}
            }
        }
        o.push_str("],\"consts\":[");
        o.push_str(&consts.join(","));
        o.push_str("],\"impls\":[");
        o.push_str(&impls.join(","));
        o.push_str("],\"fns\":[");
        o.push_str(&fns.join(","));
        o.push_str("]}");
        o
    }
}

struct Cb {
    out_dir: Option<String>,
}

impl rustc_driver::Callbacks for Cb {
    fn after_analysis<'tcx>(
        &mut self,
        _compiler: &rustc_interface::interface::Compiler,
        tcx: TyCtxt<'tcx>,
    ) -> Compilation {
        let Some(out_dir) = self.out_dir.clone() else {
            return Compilation::Continue;
        };
        let cx = Cx { tcx };
        let mut out = String::with_capacity(64 << 20);
        out.push_str(&cx.tables());
        out.push('\n');
        let mut n = 0usize;
        for ldef in tcx.hir_body_owners() {
            let def = ldef.to_def_id();
            let kind = tcx.def_kind(def);
            if !matches!(kind, DefKind::Fn | DefKind::AssocFn | DefKind::Closure) {
                // consts/statics: dump their MIR too (for constant tables) but tagged
                if matches!(kind, DefKind::Const { .. } | DefKind::Static { .. } | DefKind::AssocConst { .. }) {
                    let body = tcx.mir_for_ctfe(ldef);
                    out.push_str(&cx.body(def, body));
                    out.push('\n');
                    n += 1;
                }
                continue;
            }
            if !tcx.is_mir_available(def) {
                continue;
            }
            let body = tcx.optimized_mir(def);
            out.push_str(&cx.body(def, body));
            out.push('\n');
            n += 1;
            // promoted constants of this body (e.g. `&[0]`, `&F::_PYO3_DEF`): dumped as separate bodies named
            // `<owner>::promoted[i]`
            let promoted = tcx.promoted_mir(def);
            for (pi, pbody) in promoted.iter_enumerated() {
                let mut s = cx.body(def, pbody);
                let owner = cx.path(def);
                let from = format!("{{\"path\":{}", esc(&owner));
                let to = format!("{{\"path\":{}", esc(&format!("{}::promoted[{}]", owner, pi.as_usize())));
                if s.starts_with(&from) {
                    s = format!("{}{}", to, &s[from.len()..]);
                }
                s = s.replacen("\"kind\":\"Fn\"", "\"kind\":\"Promoted\"", 1)
                    .replacen("\"kind\":\"AssocFn\"", "\"kind\":\"Promoted\"", 1)
                    .replacen("\"kind\":\"Closure\"", "\"kind\":\"Promoted\"", 1);
                out.push_str(&s);
                out.push('\n');
                n += 1;
            }
        }
        let cname = tcx.crate_name(LOCAL_CRATE).to_string();
        let file = format!("{}/{}.{}.jsonl", out_dir, cname, std::process::id());
        std::fs::write(&file, out).expect("simlint: cannot write facts");
        eprintln!("simlint: {} bodies -> {}", n, file);
        Compilation::Continue
    }
}

fn main() {
    let mut args: Vec<String> = std::env::args().collect();
    // RUSTC_WORKSPACE_WRAPPER protocol: argv[1] is the path of the real rustc.
    if args.len() > 1 && (args[1].ends_with("rustc") || args[1].contains("/rustc")) {
        args.remove(1);
    }
    let out_dir = std::env::var("SIMLINT_OUT").ok();
    // Only analyse the requested crate kinds (skip build scripts and probes).
    let is_probe = args.iter().any(|a| a == "-vV" || a == "--print" || a.starts_with("--print="))
        || args.iter().any(|a| a == "-");
    let crate_name = args
        .iter()
        .position(|a| a == "--crate-name")
        .and_then(|i| args.get(i + 1))
        .cloned()
        .unwrap_or_default();
    let want = std::env::var("SIMLINT_CRATES").unwrap_or_default();
    let selected = !is_probe
        && (want.is_empty() || want.split(',').any(|w| w == crate_name))
        && crate_name != "build_script_build";
    let mut cb = Cb { out_dir: if selected { out_dir } else { None } };
    rustc_driver::run_compiler(&args, &mut cb);
}
